#!/bin/bash
# run every claimed quick check once, report exit codes and wall times
cd "$(dirname "$(readlink -f "$0")")"
for p in $(python3 -c "import json; print(' '.join(c['property_id'] for c in json.load(open('MANIFEST.json'))['checks']))"); do
  s=$(date +%s); out=$(./check $p --tier ${1:-quick} 2>&1); rc=$?; e=$(date +%s)
  echo "$p rc=$rc $((e-s))s $(echo "$out" | grep -cE 'KNOWN-FINDING') known $(echo "$out" | grep -E 'VIOLATION|TOOL-ERROR|MODEL-MISMATCH|DRIFT' | cut -c1-160 | head -3)"
done
