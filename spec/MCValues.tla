------------------------------ MODULE MCValues ------------------------------
(***************************************************************************)
(* Model checking of Values.tla: TLC enumerates the scenarios, walks each   *)
(* history in the model and checks that the model itself hands every value  *)
(* back / drops it exactly once; one SCEN line per scenario feeds the       *)
(* harness (`hlverif values`).                                              *)
(***************************************************************************)
EXTENDS Values, Json, SequencesExt

CONSTANTS VKinds, VMaxN, VMaxOps

VARIABLES vs, k, returned, dropped     \* vs: the scenario record itself

vvars == <<vs, k, returned, dropped>>

VInit == /\ vs \in Scenarios(VKinds, VMaxN, VMaxOps) /\ k = 0 /\ returned = <<>> /\ dropped = {}
         /\ PrintT("SCEN " \o ToJson([scen |-> vs]))

\* one model step per operation, then the destructor
VNext ==
  LET sc == vs IN
  \/ /\ k < Len(sc.ops)
     /\ k' = k + 1
     /\ returned' = IF sc.ops[k + 1].o = "extend" THEN returned
                    ELSE Append(returned, ExpectedRets(sc)[Len(returned) + 1])
     /\ UNCHANGED <<vs, dropped>>
  \/ /\ k = Len(sc.ops) /\ dropped = {}
     /\ k' = k + 1
     /\ returned' = ExpectedRets(sc)
     /\ dropped' = AllIds(sc)
     /\ UNCHANGED vs

\* every identity handed back by a consuming destructor is one the container holds, once
RetsWellFormed ==
  LET sc == vs
      dr == DtorRets(sc) IN
  /\ \A i, j \in 1..Len(dr) : i # j => dr[i].id # dr[j].id
  /\ {dr[i].id : i \in 1..Len(dr)} \subseteq AllIds(sc)
  /\ \A i \in 1..Len(dr) : dr[i].pos = i
=============================================================================
