------------------------------ MODULE TraceHL ------------------------------
(***************************************************************************)
(* Trace validation: events recorded from the real code (ndjson, path in   *)
(* the environment variable TRACE) are consumed line by line.              *)
(*   - every event is fed to the Monitor (always): the properties are      *)
(*     evaluated at every step of every observed execution;                *)
(*   - while the execution conforms, every event must be the next event of *)
(*     an enabled HappyLock step of that thread (strict refinement check); *)
(*     at the first event no step can produce, `conform` becomes FALSE for *)
(*     the rest of that execution (reported as DRIFT, not as a violation). *)
(***************************************************************************)
EXTENDS HappyLock, Json, IOUtils

Rec == ndJsonDeserialize(IOEnv.TRACE)

IsScen(r) == r.e = "scen"
\* NB: a definition used as a CONSTANT override is re-evaluated by TLC on every
\* use; only the indirection TVScenTab == TVScenTab0 makes the table a cached value.
TVScenTab0 == LET sl == SelectSeq(Rec, IsScen) IN [i \in 1..Len(sl) |-> Derive(sl[i].scen)]

TVScenTab == TVScenTab0

VARIABLES ti,       \* next line of Rec
          xi,       \* index of the current execution (number of hdr lines seen)
          conform,  \* the current execution still follows the HappyLock model
          exp,      \* events the model expects next (rest of the current step)
          found,    \* violations found so far: [p, s, x, ln]
          drifts,   \* first non-conforming line per execution: [x, ln]
          okx,      \* executions that conformed to the end
          ndrift,   \* number of executions that left the model (drifts keeps only the first MaxDrifts)
          hits      \* per property: [ev |-> rule evaluations, ex |-> executions with at least one, cur |-> hit in this execution]

tvars == <<vars, ti, xi, conform, exp, found, drifts, okx, ndrift, hits>>

Props == {"C01", "C02", "C03", "C04", "C05", "C06", "C07", "C08", "C09", "C10", "C11", "C12", "C13", "C16", "C17"}

TInit ==
  /\ sid = 0 /\ hw = <<>> /\ hr = <<>> /\ th = <<>> /\ kf = <<>> /\ val = <<>> /\ pflag = <<>> /\ killed = <<>> /\ nops = 0
  /\ mon = [viol |-> {}] /\ hist = <<>> /\ last = <<>>
  /\ ti = 1 /\ xi = 0 /\ conform = FALSE /\ exp = <<>> /\ found = {} /\ drifts = {} /\ okx = 0 /\ ndrift = 0
  /\ hits = [p \in Props |-> [ev |-> 0, ex |-> 0, cur |-> FALSE]]

ResetTo(s) ==
  LET d == D(s) IN
  /\ sid' = s
  /\ hw' = [l \in 1..d.nl |-> 0]
  /\ hr' = [l \in 1..d.nl |-> [t \in Threads(d) |-> 0]]
  /\ th' = InitTh(d)
  /\ kf' = [t \in Threads(d) |-> FALSE]
  /\ val' = [l \in 1..d.nl |-> 0]
  /\ pflag' = [c \in 1..d.nc |-> FALSE]
  /\ killed' = [l \in 1..d.nl |-> FALSE]
  /\ nops' = 0
  /\ mon' = MonInit(s)

Model == <<sid, hw, hr, th, kf, val, pflag, killed, nops>>

MaxPerSig == 3
MaxDrifts == 300
Drift == /\ conform' = FALSE
         /\ drifts' = IF Cardinality(drifts) < MaxDrifts THEN drifts \cup {[x |-> xi, ln |-> ti]} ELSE drifts
         /\ ndrift' = ndrift + 1
         /\ exp' = <<>>
         /\ UNCHANGED Model

\* events that are observations only (no model step corresponds to them)
InfoEvents == {"ctor"}
Terminal(ev) == ev.e \in {"end", "deadlock", "budget"}

TNext ==
  /\ ti <= Len(Rec)
  /\ ti' = ti + 1
  /\ UNCHANGED <<hist, last>>
  /\ LET ev == Rec[ti] IN
     IF ev.e = "scen" THEN UNCHANGED <<Model, mon, xi, conform, exp, found, drifts, ndrift, okx, hits>>
     ELSE IF ev.e = "hdr"
     THEN /\ ResetTo(ev.sn)
          /\ xi' = xi + 1 /\ conform' = TRUE /\ exp' = <<>>
          /\ UNCHANGED <<found, drifts, ndrift, okx>>
          /\ hits' = [p \in Props |-> [hits[p] EXCEPT !.cur = FALSE]]
     ELSE
       LET d  == D(sid)
           m1 == MonStep(mon, ev) IN
       /\ mon' = m1
       /\ LET h == RuleHits(mon, ev) IN
          hits' = [p \in Props |-> IF p \in h
                     THEN [ev |-> hits[p].ev + 1, ex |-> IF hits[p].cur THEN hits[p].ex ELSE hits[p].ex + 1, cur |-> TRUE]
                     ELSE hits[p]]
       \* at most MaxPerSig records per (property, signature): the set stays small however many
       \* executions of a shard exhibit the same finding
       /\ found' = found \cup {[p |-> v.p, s |-> v.s, x |-> xi, ln |-> ti] :
                                v \in {w \in (m1.viol \ mon.viol) :
                                         Cardinality({f \in found : f.p = w.p /\ f.s = w.s}) < MaxPerSig}}
       /\ xi' = xi
       /\ IF ~conform \/ ev.e \in InfoEvents THEN UNCHANGED <<Model, conform, exp, drifts, ndrift>>
          ELSE IF exp # <<>>
          THEN IF Head(exp) = ev
               THEN exp' = Tail(exp) /\ UNCHANGED <<Model, conform, drifts, ndrift>>
               ELSE Drift
          ELSE IF ev.e = "end"
          THEN IF AllDone THEN UNCHANGED <<Model, conform, exp, drifts, ndrift>> ELSE Drift
          ELSE IF ev.e = "deadlock"    \* the scheduler found nobody runnable: the model must agree
          THEN IF ModelStuck THEN UNCHANGED <<Model, conform, exp, drifts, ndrift>> ELSE Drift
          ELSE IF "t" \in DOMAIN ev /\ ev.t \in Threads(d) /\ StepEnabled(d, ev.t)
          THEN LET ns == StepOf(d, ev.t) IN
               IF ns.S.evs # <<>> /\ Head(ns.S.evs) = ev
               THEN /\ Apply(d, ev.t, ns) /\ sid' = sid
                    /\ exp' = Tail(ns.S.evs)
                    /\ UNCHANGED <<conform, drifts, ndrift>>
               ELSE Drift
          ELSE Drift
       /\ okx' = IF Terminal(ev) /\ conform' THEN okx + 1 ELSE okx

TSpec == TInit /\ [][TNext]_tvars

\* results are printed from the final state (a POSTCONDITION cannot read variables)
Report ==
  ti = Len(Rec) + 1 =>
    /\ \A v \in found : PrintT("VIOL " \o ToJson(v))
    /\ \A v \in drifts : PrintT(<<"DRIFT", v.x, v.ln>>)
    /\ \A p \in Props : PrintT(<<"HITS", p, hits[p].ev, hits[p].ex>>)
    /\ PrintT(<<"NDRIFT", ndrift>>)
    /\ PrintT(<<"STATS", Len(Rec), xi, okx>>)

Consumed == TLCGet("stats").diameter = Len(Rec) + 1
=============================================================================
