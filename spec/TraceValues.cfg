INIT TVInit
NEXT TVNext
INVARIANT Report
POSTCONDITION Consumed
CHECK_DEADLOCK FALSE
