------------------------------ MODULE Monitor ------------------------------
(***************************************************************************)
(* The properties C01..C13, C16, C17 of /verif/properties.jsonl, written   *)
(* ONCE, as a pure, total function over event sequences.                   *)
(*                                                                         *)
(*   MonInit(sid)      monitor state at the start of an execution          *)
(*   MonStep(m, ev)    never blocks, never rejects; a broken rule adds a   *)
(*                     record [p |-> property id, s |-> signature] to      *)
(*                     m.viol                                              *)
(*                                                                         *)
(* It is evaluated (MC) on the events the HappyLock model emits, in every  *)
(* reachable state of every interleaving, and (TV) on the events recorded  *)
(* from the real code.  The monitor keeps its OWN holder table from the    *)
(* raw events; it never trusts the model's or the harness's opinion.       *)
(***************************************************************************)
EXTENDS Structure

CONSTANT ScenTab          \* Seq of derived scenarios (Structure!Derive)

D(sid) == ScenTab[sid]

ApiMode(api)   == IF api \in {"read", "try_read", "scoped_read", "scoped_try_read"} THEN "r" ELSE "w"
ApiTry(api)    == api \in {"try_lock", "try_read", "scoped_try_lock", "scoped_try_read"}
ApiScoped(api) == api \in {"scoped_lock", "scoped_read", "scoped_try_lock", "scoped_try_read"}

NoCall == [on |-> FALSE, ci |-> 0, api |-> "", c |-> 0, key |-> "", raws |-> FALSE, acqs |-> <<>>,
           enters |-> 0, quiet |-> FALSE, sw |-> <<>>, sr |-> <<>>, incs |-> FALSE, rel |-> "",
           faulted |-> FALSE, panicked |-> FALSE, inpanic |-> FALSE, succ |-> FALSE, h0 |-> {}, dead0 |-> {}]

MonInit(sid) ==
  LET d == D(sid) IN
  [ sid    |-> sid,
    hw     |-> [l \in 1..d.nl |-> 0],
    hr     |-> [l \in 1..d.nl |-> [t \in 1..d.nt |-> 0]],
    pend   |-> [t \in 1..d.nt |-> <<>>],
    fin    |-> [t \in 1..d.nt |-> FALSE],
    cur    |-> [t \in 1..d.nt |-> NoCall],
    mval   |-> [l \in 1..d.nl |-> 0],
    pairs  |-> {},
    kalive |-> [t \in 1..d.nt |-> FALSE],
    leaked |-> {},
    dead   |-> {},
    should |-> [c \in 1..d.nc |-> FALSE],
    shsite |-> [c \in 1..d.nc |-> ""],
    lastpan |-> [t \in 1..d.nt |-> FALSE],
    fsite  |-> "",
    fop    |-> "",
    may    |-> [c \in 1..d.nc |-> FALSE],
    op     |-> [t \in 1..d.nt |-> <<>>],
    ended  |-> FALSE,
    viol   |-> {} ]

Flag(m, p, s) == [m EXCEPT !.viol = @ \cup {[p |-> p, s |-> s]}]

Readers(m, l)    == {u \in DOMAIN m.fin : m.hr[l][u] > 0}
HeldBy(m, t)     == {l \in DOMAIN m.hw : m.hw[l] = t \/ m.hr[l][t] > 0}
FreeFor(m, l, md, t) ==      \* may t take l in mode md according to the monitor's table
  IF md = "w" THEN m.hw[l] = 0 /\ Readers(m, l) = {}
  ELSE m.hw[l] = 0 /\ (D(m.sid).policy = "RP" \/ ~\E u \in DOMAIN m.fin : u # t /\ m.pend[u] = <<l, "w">>)
Waiting(m, t)    == m.pend[t] # <<>> /\ ~FreeFor(m, m.pend[t][1], m.pend[t][2], t)
\* C01 assumes "guards are dropped": a wait for a lock that was leaked on purpose
\* (mem::forget) or killed by an injected fault is not a deadlock of happylock
Stuck(m)         == /\ \E t \in DOMAIN m.fin : ~m.fin[t]
                    /\ \A t \in DOMAIN m.fin : m.fin[t] \/ Waiting(m, t)
                    /\ \A t \in DOMAIN m.fin : m.pend[t] # <<>> => m.pend[t][1] \notin (m.leaked \cup m.dead)
                    /\ m.leaked = {} /\ m.dead = {}

KindStr(m, c) == LET co == D(m.sid).C[c] IN
                 IF co.kind \in {"pois"} THEN "pois(" \o co.inner \o ")" ELSE co.kind
CallSig(m, t, sym) == LET cu == m.cur[t] IN
                      IF cu.c = 0 THEN "nocall/" \o sym
                      ELSE KindStr(m, cu.c) \o "/" \o cu.api \o "/" \o sym

\* exactly the leaves of c, each once, in mode md, and nothing else
HoldsExactly(m, t, c, md) ==
  LET lv == D(m.sid).C[c].lv IN
  \A l \in DOMAIN m.hw :
     IF l \in lv
     THEN IF md = "w" THEN m.hw[l] = t /\ m.hr[l][t] = 0 ELSE m.hr[l][t] = 1 /\ m.hw[l] # t
     ELSE m.hw[l] # t /\ m.hr[l][t] = 0
HoldsAll(m, t, c, md) ==
  \A l \in D(m.sid).C[c].lv : IF md = "w" THEN m.hw[l] = t ELSE (m.hr[l][t] > 0 \/ m.hw[l] = t)

AddHold(m, t, l, md) == IF md = "w" THEN [m EXCEPT !.hw[l] = t] ELSE [m EXCEPT !.hr[l][t] = @ + 1]
DelHold(m, t, l, md) == IF md = "w" THEN [m EXCEPT !.hw[l] = 0] ELSE [m EXCEPT !.hr[l][t] = @ - 1]
HasHold(m, t, l, md) == IF md = "w" THEN m.hw[l] = t ELSE m.hr[l][t] > 0

\* another thread did something: running try calls are no longer "quiescent"
Disturb(m, t) == IF \E u \in DOMAIN m.cur : u # t /\ m.cur[u].quiet
                 THEN [m EXCEPT !.cur = [u \in DOMAIN m.cur |->
                         IF u # t /\ m.cur[u].quiet THEN [m.cur[u] EXCEPT !.quiet = FALSE] ELSE m.cur[u]]]
                 ELSE m

\* C03: first raw acquisition operation of a call must find the thread holding nothing
FirstRaw(m, t) ==
  LET m1 == IF m.cur[t].on /\ ~m.cur[t].raws /\ HeldBy(m, t) # {} /\ m.dead = {}
            THEN Flag(m, "C03", CallSig(m, t, "acquire-while-holding")) ELSE m
  IN [m1 EXCEPT !.cur[t].raws = TRUE]

\* C09: a thread inside a retrying acquisition waits while holding something outside the unit it waits for
RetryHoldWait(m, t) ==
  /\ m.cur[t].on /\ m.cur[t].c # 0
  /\ D(m.sid).C[m.cur[t].c].kind = "retry" \/ (D(m.sid).C[m.cur[t].c].kind = "pois" /\ D(m.sid).C[m.cur[t].c].inner = "retry")
  /\ Waiting(m, t)
  /\ LET l == m.pend[t][1]
         u == D(m.sid).unit[l]
         mates == IF u = 0 THEN {l} ELSE {x \in DOMAIN m.hw : D(m.sid).unit[x] = u}
     IN HeldBy(m, t) \ mates # {}

\* state predicates evaluated after every event that can change who waits for what
PostChecks(m) ==
  LET m1 == IF D(m.sid).hasretry /\ \E t \in DOMAIN m.fin : m.pend[t] # <<>> /\ RetryHoldWait(m, t)
            THEN Flag(m, "C09", CallSig(m, CHOOSE t \in DOMAIN m.fin : RetryHoldWait(m, t), "waits-while-holding"))
            ELSE m
      m2 == IF Stuck(m1) THEN Flag(m1, "C01", "stuck") ELSE m1
  IN m2

OnReq(m0, e) ==
  LET t == e.t
      m  == Disturb(m0, t)
      m1 == FirstRaw(m, t)
      m2 == IF m1.cur[t].on /\ ApiTry(m1.cur[t].api)
            THEN Flag(m1, "C04", CallSig(m1, t, "blocking-op-in-try")) ELSE m1
      m3 == IF m2.op[t] # <<>>
            THEN Flag(m2, "C17", m2.op[t][1] \o "/blocking-op-in-nonacquiring-operation") ELSE m2
      m4 == IF m3.dead = {} /\ ((m3.hw[e.l] = t) \/ (e.m = "w" /\ m3.hr[e.l][t] > 0))
            THEN Flag(m3, "C01", CallSig(m3, t, "self-wait")) ELSE m3
  IN [m4 EXCEPT !.pend[t] = <<e.l, e.m>>]

\* C08: blocking acquisitions through sorting collections agree on one order
SortingCall(m, t) == m.cur[t].on /\ m.cur[t].c # 0 /\ ~ApiTry(m.cur[t].api)
                     /\ LET co == D(m.sid).C[m.cur[t].c] IN
                        co.kind \in {"boxed", "ref"} \/ (co.kind = "pois" /\ co.inner \in {"boxed", "ref"})
\* an owned collection is ordered as ONE unit: inside a sorting acquisition its leaves are taken
\* contiguously and in the unit's own listing order
UnitBroken(m, t, l) ==
  LET d  == D(m.sid)
      u  == d.unit[l]
      aq == m.cur[t].acqs IN
  IF u = 0
  THEN \* a leaf outside any unit must not split a unit whose members are only partly taken
       aq # <<>> /\ d.unit[aq[Len(aq)]] # 0
       /\ LET v == d.unit[aq[Len(aq)]] IN SeqRange(d.raw.arena[v].ms) \ SeqRange(aq) # {}
  ELSE LET ms == d.raw.arena[u].ms
           k  == CHOOSE i \in 1..Len(ms) : ms[i] = l IN
       IF k = 1 THEN (aq # <<>> /\ d.unit[aq[Len(aq)]] # 0 /\ d.unit[aq[Len(aq)]] # u
                      /\ SeqRange(d.raw.arena[d.unit[aq[Len(aq)]]].ms) \ SeqRange(aq) # {})
       ELSE aq = <<>> \/ aq[Len(aq)] # ms[k - 1]
OrderPairs(m, t, l) ==
  IF ~SortingCall(m, t) THEN m
  ELSE LET new == {<<m.cur[t].acqs[i], l>> : i \in 1..Len(m.cur[t].acqs)}
           m0  == IF UnitBroken(m, t, l) THEN Flag(m, "C08", CallSig(m, t, "owned-unit-not-taken-as-one-unit")) ELSE m
           m1  == IF \E p \in new : <<p[2], p[1]>> \in m0.pairs
                  THEN Flag(m0, "C08", CallSig(m0, t, "order-conflict")) ELSE m0
       IN [m1 EXCEPT !.pairs = @ \cup new, !.cur[t].acqs = Append(@, l)]

OnAcq(m0, e) ==
  LET t == e.t
      m  == Disturb(m0, t)
      ma == IF FreeFor(m, e.l, e.m, t) THEN m ELSE Flag(m, "ENV", "acq-not-grantable")
      m1 == IF e.l \in ma.dead /\ (~ma.cur[t].on \/ e.l \in ma.cur[t].dead0) THEN Flag(ma, "C12", CallSig(ma, t, "killed-lock-acquired-by-blocking-acquisition")) ELSE ma
      m2 == OrderPairs(m1, t, e.l)
      m3 == AddHold(m2, t, e.l, e.m)
  IN [m3 EXCEPT !.pend[t] = <<>>]

OnTry(m0, e) ==
  LET t == e.t
      m  == Disturb(m0, t)
      m1 == FirstRaw(m, t)
  IN IF e.ok
     THEN LET m2a == IF FreeFor(m1, e.l, e.m, t) THEN m1 ELSE Flag(m1, "ENV", "try-not-grantable")
              m2 == IF e.l \in m2a.dead /\ (~m2a.cur[t].on \/ e.l \in m2a.cur[t].dead0) THEN Flag(m2a, "C12", CallSig(m2a, t, "killed-lock-acquired-by-try")) ELSE m2a
          IN AddHold(m2, t, e.l, e.m)
     ELSE m1

\* C05: a release must be of a hold the thread has, in the mode it was taken
OnRel(m0, e) ==
  LET t == e.t
      m == Disturb(m0, t) IN
  IF HasHold(m, t, e.l, e.m) THEN DelHold(m, t, e.l, e.m)
  ELSE LET sym == IF HasHold(m, t, e.l, IF e.m = "w" THEN "r" ELSE "w") THEN "wrong-mode-release"
                  ELSE IF m.hw[e.l] # 0 \/ Readers(m, e.l) # {} THEN "foreign-release"
                  ELSE "release-of-unheld"
           p   == IF m.cur[t].faulted \/ m.dead # {} THEN "C12" ELSE "C05"
           m1  == Flag(m, p, CallSig(m, t, IF p = "C12"
                                              THEN (IF m.cur[t].faulted THEN "fault=" \o m.fop ELSE "fault=killed-before") \o "/" \o sym
                                              ELSE sym))
       IN \* C17: a non-acquiring operation changed the hold state of a lock
          IF m.op[t] # <<>> THEN Flag(m1, "C17", m.op[t][1] \o "/release-of-unheld-in-non-acquiring-operation") ELSE m1

OnCall(m, e) ==
  LET t == e.t
      d == D(m.sid)
      quiet == \A u \in DOMAIN m.fin : u = t \/ m.pend[u] = <<>>
      m1 == IF m.kalive[t] THEN m ELSE Flag(m, "C06", "call-without-live-key")
  IN [m1 EXCEPT !.cur[t] = [NoCall EXCEPT !.on = TRUE, !.ci = e.ci, !.api = e.api, !.c = e.c, !.key = e.key, !.rel = e.rel,
                                            !.h0 = HeldBy(m, t), !.dead0 = m.dead,
                                            !.quiet = (quiet /\ ApiTry(e.api)),
                                            !.sw = IF ApiTry(e.api) THEN m.hw ELSE <<>>,
                                            !.sr = IF ApiTry(e.api) THEN [l \in DOMAIN m.hw |-> Readers(m, l)] ELSE <<>>]]

\* C13: outcome of a try in a quiescent state
TryExpected(m, t) ==
  LET cu == m.cur[t]
      lv == D(m.sid).C[cu.c].lv IN
  IF ApiMode(cu.api) = "w" THEN \A l \in lv : cu.sw[l] = 0 /\ cu.sr[l] = {}
  ELSE \A l \in lv : cu.sw[l] = 0
TableSame(m, t) == LET cu == m.cur[t] IN
  \A l \in DOMAIN m.hw : m.hw[l] = cu.sw[l] /\ Readers(m, l) = cu.sr[l]

\* C10: Ok/Err verdicts of the poisonable wrappers reached through collection c
PoisObs(m, t, c, errs) ==
  LET ps == D(m.sid).C[c].pseq
      bad1 == {i \in 1..Len(ps) : i <= Len(errs) /\ m.should[ps[i]] /\ ~errs[i]}
      bad2 == {i \in 1..Len(ps) : i <= Len(errs) /\ errs[i] /\ ~m.should[ps[i]] /\ ~m.may[ps[i]]}
      \* the signature names the call site whose panic failed to poison, not the observer
      m1 == IF bad1 # {}
            THEN Flag(m, "C10", m.shsite[ps[CHOOSE i \in bad1 : \A j \in bad1 : i <= j]] \o "/not-poisoned-after-panic-in-exclusive-hold")
            ELSE m
      m2 == IF bad2 # {} THEN Flag(m1, "C10", CallSig(m1, t, "poisoned-without-panic")) ELSE m1
      m3 == IF Len(errs) # Len(ps) THEN Flag(m2, "C10", CallSig(m2, t, "poison-verdicts-missing")) ELSE m2
  IN m3

OnRet(m0, e) ==
  LET t  == e.t
      succ == e.res \in {"ok", "poisoned"}
      m  == IF succ THEN [m0 EXCEPT !.cur[t].succ = TRUE] ELSE m0
      cu == m.cur[t]
      md == ApiMode(cu.api)
  IN
  IF ~cu.on THEN Flag(m, "ENV", "ret-without-call")
  ELSE IF e.res = "panicked"
  THEN \* the panic has unwound through the call: every exclusive hold it had on a poisonable must now show
       LET ps  == D(m.sid).C[cu.c].pois
           hit == {c \in ps : md = "w" /\ cu.inpanic} IN
       [m EXCEPT !.cur[t].panicked = TRUE,
                 !.should = [c \in DOMAIN m.should |-> m.should[c] \/ c \in hit],
                 !.shsite = [c \in DOMAIN m.shsite |->
                              IF c \in hit /\ ~m.should[c]
                              THEN KindStr(m, cu.c) \o "/" \o cu.api \o (IF c = cu.c THEN "/own-flag" ELSE "/inner-poisonable")
                              ELSE m.shsite[c]]]
  ELSE IF e.res \in {"rawpanicked", "libpanic"}
  THEN LET mk == IF e.res = "libpanic" /\ ~cu.faulted /\ m.dead = {}
                 THEN Flag(m, "C10", CallSig(m, t, "lock-unusable-without-raw-fault")) ELSE m
           lv == D(m.sid).C[cu.c].lv
           \* a blocking acquisition panicked although none of its locks ever had a faulting operation:
           \* some lock was made unusable without a fault of its own
           mk2 == IF e.res = "libpanic" /\ m.dead # {} /\ lv \cap m.dead = {}
                  THEN Flag(mk, "C12", mk.fsite \o "/other-lock-unusable-after-raw-panic") ELSE mk
       IN [mk2 EXCEPT !.cur[t].panicked = TRUE]
  ELSE
   LET m1 == IF succ /\ ~ApiScoped(cu.api) /\ m.dead = {} /\ ~HoldsExactly(m, t, cu.c, md)
             THEN Flag(m, "C04", CallSig(m, t, "held-set-differs-from-leaves")) ELSE m
       m2 == IF ~succ /\ HeldBy(m1, t) # {} /\ m1.dead = {}
             THEN Flag(m1, "C04", CallSig(m1, t, "failed-try-keeps-locks")) ELSE m1
       m3 == IF ApiScoped(cu.api) /\ cu.enters # (IF succ THEN 1 ELSE 0)
             THEN Flag(m2, "C04", CallSig(m2, t, "closure-count")) ELSE m2
       m4 == IF ApiTry(cu.api) /\ cu.quiet /\ D(m.sid).C[cu.c].lv \cap m.dead = {} /\ succ # TryExpected(m3, t)
             THEN (IF m3.dead = {}
                   THEN Flag(m3, "C13", CallSig(m3, t, IF succ THEN "try-succeeded-on-held" ELSE "try-failed-on-free"))
                   ELSE IF ~succ THEN Flag(m3, "C12", m3.fsite \o "/other-lock-unusable-after-raw-panic") ELSE m3)
             ELSE m3
       m5 == IF ApiTry(cu.api) /\ cu.quiet /\ ~succ /\ ~TableSame(m4, t)
             THEN Flag(m4, "C13", CallSig(m4, t, "failed-try-changed-holds")) ELSE m4
       m6 == IF ~ApiTry(cu.api) /\ ~succ
             THEN Flag(m5, "C04", CallSig(m5, t, "blocking-acquisition-reported-failure")) ELSE m5
       m7 == IF succ /\ ~ApiScoped(cu.api) THEN PoisObs(m6, t, cu.c, e.errs) ELSE m6
   IN m7

OnEnter(m, e) ==
  LET t == e.t
      cu == m.cur[t]
      m1 == IF (cu.on /\ HoldsExactly(m, t, cu.c, ApiMode(cu.api))) \/ m.dead # {} THEN m
            ELSE Flag(m, "C04", CallSig(m, t, "closure-entered-without-all-leaves"))
      m2 == IF cu.on THEN PoisObs(m1, t, cu.c, e.errs) ELSE m1
  IN [m2 EXCEPT !.cur[t].enters = @ + 1, !.cur[t].incs = TRUE]

OnExit(m, e) ==
  LET t == e.t
      cu == m.cur[t]
      m1 == IF cu.on /\ HoldsAll(m, t, cu.c, ApiMode(cu.api)) THEN m
            ELSE Flag(m, "C02", CallSig(m, t, "closure-running-without-all-leaves"))
  IN [m1 EXCEPT !.cur[t].incs = FALSE]

\* C02: an access through a guard / closure argument
OnAcc(m, e) ==
  LET t  == e.t
      cu == m.cur[t]
      l  == IF cu.on THEN LeafAtC(D(m.sid).raw, cu.c, e.pos) ELSE 0
      m1 == IF l = 0 \/ e.lid # l THEN Flag(m, "C02", CallSig(m, t, "misrouted-access")) ELSE m
      tl == e.lid
      ok == tl \in DOMAIN m.hw
      m2 == IF ok /\ ~(m1.hw[tl] = t \/ (e.m = "r" /\ m1.hr[tl][t] > 0))
            THEN Flag(m1, "C02", CallSig(m1, t, "access-without-hold")) ELSE m1
      m3 == IF ok /\ e.seen # m2.mval[tl] THEN Flag(m2, "C02", CallSig(m2, t, "stale-or-lost-value")) ELSE m2
  IN IF ok THEN [m3 EXCEPT !.mval[tl] = e.wrote] ELSE m3

OnFin(m, e) ==
  LET t  == e.t
      cu == m.cur[t]
      \* C03 covers "scoped call returned or unwound"; after a user panic the same fact also breaks C11
      m0 == IF e.keyback /\ HeldBy(m, t) # {} /\ m.dead = {}
            THEN Flag(m, "C03", CallSig(m, t, "key-back-while-holding")) ELSE m
      m1 == IF e.keyback /\ HeldBy(m, t) # {} /\ m.dead = {} /\ cu.panicked
            THEN Flag(m0, "C11", CallSig(m, t, "key-back-while-holding")) ELSE m0
      m2 == IF cu.rel = "forget" /\ cu.succ /\ ~cu.panicked THEN [m1 EXCEPT !.leaked = @ \cup HeldBy(m1, t)] ELSE m1
      m3 == IF cu.panicked /\ (HeldBy(m2, t) \ (m2.leaked \cup cu.h0)) # {} /\ ~cu.faulted /\ m2.dead = {}
            THEN Flag(m2, "C11", CallSig(m2, t, "locks-held-after-panic")) ELSE m2
      m4 == IF cu.faulted /\ (HeldBy(m3, t) \ (m3.dead \cup cu.h0)) # {}
            THEN Flag(m3, "C12", CallSig(m3, t, "fault=" \o m3.fop \o "/locks-held-after-raw-panic")) ELSE m3
      m5 == IF cu.on /\ ApiTry(cu.api) /\ cu.succ /\ cu.quiet /\ ~cu.panicked /\ cu.rel # "forget" /\ m4.dead = {}
               /\ ~TableSame(m4, t)
            THEN Flag(m4, "C13", CallSig(m4, t, "successful-try-not-undone-by-release")) ELSE m4
  IN [m5 EXCEPT !.cur[t] = NoCall, !.lastpan[t] = cu.panicked,
                !.kalive[t] = (e.keyback \/ (cu.rel = "forget" /\ cu.succ /\ ~cu.panicked))]

\* C11: after a panic the thread's key must be obtainable again
KeyLost(m, t) == IF m.lastpan[t] THEN Flag(Flag(m, "C06", "key-not-obtainable"), "C11", "key-not-obtainable-after-panic")
                 ELSE Flag(m, "C06", "key-not-obtainable")
OnGet(m, e) ==
  LET t == e.t
      m1 == IF e.some = ~m.kalive[t] THEN m
            ELSE IF e.some THEN Flag(m, "C06", "second-live-key") ELSE KeyLost(m, t)
      m2 == IF e.some /\ HeldBy(m1, t) \ m1.leaked # {} /\ m1.dead = {}
            THEN Flag(m1, "C03", "key-obtained-while-holding") ELSE m1
  IN [m2 EXCEPT !.kalive[t] = TRUE]     \* after a get the thread's key is alive either way

\* user code panics inside the critical section of its current call
OnPanic(m, e) ==
  LET t  == e.t
      cu == m.cur[t]
      ps == IF cu.c # 0 THEN D(m.sid).C[cu.c].pois ELSE {} IN
  [m EXCEPT !.cur[t].inpanic = TRUE,
            !.may = [c \in DOMAIN m.may |-> m.may[c] \/ c \in ps]]

\* an injected fault: the raw operation had no effect and panicked
OnRawPanic(m, e) ==
  LET t  == e.t
      cu == m.cur[t]
      ps == IF cu.c # 0 THEN D(m.sid).C[cu.c].pois ELSE {}
      m1 == IF e.op = "unlock" /\ ~HasHold(m, t, e.l, e.m)
            THEN Flag(m, "C12", CallSig(m, t, "fault=unlock/release-of-unheld")) ELSE m
  IN [m1 EXCEPT !.dead = @ \cup {e.l}, !.cur[t].faulted = TRUE, !.pend[t] = <<>>,
                !.fsite = IF cu.c # 0 THEN KindStr(m, cu.c) \o "/" \o cu.api \o "/fault=" \o e.op ELSE "nocall",
                !.fop = e.op,
                !.may = [c \in DOMAIN m.may |-> m.may[c] \/ c \in ps]]

OnProbe(m, e) ==
  IF e.some = ~m.kalive[e.t] THEN m
  ELSE IF e.some THEN Flag(m, "C06", "second-live-key") ELSE KeyLost(m, e.t)

HoldSnap(m, t) == [l \in DOMAIN m.hw |-> <<m.hw[l] = t, m.hr[l][t]>>]

\* C17: non-acquiring operations
OnOp(m, e) ==
  LET t == e.t IN
  IF e.ph = "begin" THEN [m EXCEPT !.op[t] = <<e.name, HoldSnap(m, t)>>]
  ELSE LET m1 == IF m.op[t] # <<>> /\ m.op[t][2] # HoldSnap(m, t)
                 THEN Flag(m, "C17", e.name \o "/holds-changed-by-non-acquiring-operation") ELSE m
           isp == e.name = "is_poisoned"
           obs == e.res = "true"
           m2 == IF isp /\ m1.should[e.c] /\ ~obs THEN Flag(m1, "C10", m1.shsite[e.c] \o "/not-poisoned-after-panic-in-exclusive-hold")
                 ELSE IF isp /\ obs /\ ~m1.should[e.c] /\ ~m1.may[e.c] THEN Flag(m1, "C10", "is_poisoned/poisoned-without-panic")
                 ELSE m1
           m3 == IF e.name = "clear_poison" THEN [m2 EXCEPT !.should[e.c] = FALSE, !.may[e.c] = FALSE, !.shsite[e.c] = ""] ELSE m2
       IN [m3 EXCEPT !.op[t] = <<>>]

\* C07: a checked constructor returns None exactly for inputs in which some lock is reachable twice
OnCtor(m, e) ==
  LET co == D(m.sid).C[e.c] IN
  IF e.some = ~co.dup THEN m
  ELSE Flag(m, "C07", e.kind \o (IF co.dup THEN "/duplicate-accepted" ELSE "/duplicate-free-input-rejected"))

OnDeadlock(m, e) == IF Stuck(m) THEN Flag(m, "C01", "deadlock-reported-by-scheduler") ELSE m

OnEnd(m0, e) ==
  LET m == [m0 EXCEPT !.ended = TRUE] IN
  IF m.dead = {} /\ \E l \in DOMAIN m.hw : l \notin m.leaked /\ (m.hw[l] # 0 \/ Readers(m, l) # {})
  THEN Flag(m, "C05", "lock-held-at-end") ELSE m

MonStep(m, ev) ==
    CASE ev.e = "req"      -> PostChecks(OnReq(m, ev))
      [] ev.e = "acq"      -> PostChecks(OnAcq(m, ev))
      [] ev.e = "try"      -> PostChecks(OnTry(m, ev))
      [] ev.e = "rel"      -> OnRel(m, ev)
      [] ev.e = "call"     -> OnCall(m, ev)
      [] ev.e = "ret"      -> OnRet(m, ev)
      [] ev.e = "enter"    -> OnEnter(m, ev)
      [] ev.e = "exit"     -> OnExit(m, ev)
      [] ev.e = "acc"      -> OnAcc(m, ev)
      [] ev.e = "fin"      -> OnFin(m, ev)
      [] ev.e = "get"      -> OnGet(m, ev)
      [] ev.e = "start"    -> m
      [] ev.e = "done"     -> PostChecks([m EXCEPT !.fin[ev.t] = TRUE])
      [] ev.e = "end"      -> OnEnd(m, ev)
      [] ev.e = "deadlock" -> OnDeadlock(m, ev)
      [] ev.e = "budget"   -> IF \E t \in DOMAIN m.cur : m.cur[t].on /\ m.cur[t].c # 0 /\ D(m.sid).C[m.cur[t].c].alg = "retry"
                              THEN Flag(m, "C09", "retrying-acquisition-does-not-complete")
                              ELSE Flag(m, "C01", "step-budget-exceeded")
      [] ev.e = "panic"    -> OnPanic(m, ev)
      [] ev.e = "rawpanic" -> PostChecks(OnRawPanic(m, ev))
      [] ev.e = "probe"    -> OnProbe(m, ev)
      [] ev.e = "dropkey"  -> [m EXCEPT !.kalive[ev.t] = FALSE]
      [] ev.e = "forgetkey" -> m
      [] ev.e = "op"       -> OnOp(m, ev)
      [] ev.e = "ctor"     -> OnCtor(m, ev)
      [] OTHER             -> m

(***************************************************************************)
(* Which properties' rules does event ev exercise in monitor state m?      *)
(* (observation only: used to count non-vacuous evaluations per property)  *)
(***************************************************************************)
RuleHits(m, ev) ==
  LET t  == IF "t" \in DOMAIN ev THEN ev.t ELSE 0
      cu == IF t \in DOMAIN m.cur THEN m.cur[t] ELSE NoCall
      kd == IF cu.c # 0 THEN D(m.sid).C[cu.c].kind ELSE ""
      al == IF cu.c # 0 THEN D(m.sid).C[cu.c].alg ELSE ""
  IN
  CASE ev.e = "req"   -> {"C01"} \cup (IF ~cu.raws THEN {"C03"} ELSE {}) \cup (IF al = "retry" THEN {"C09"} ELSE {})
    [] ev.e = "acq"   -> (IF SortingCall(m, t) /\ cu.acqs # <<>> THEN {"C08"} ELSE {})
    [] ev.e = "try"   -> (IF ~cu.raws THEN {"C03"} ELSE {}) \cup (IF al = "retry" /\ ~ApiTry(cu.api) THEN {"C09"} ELSE {})
    [] ev.e = "rel"   -> {"C05"} \cup (IF cu.faulted THEN {"C12"} ELSE {})
    [] ev.e = "ret"   -> (IF ev.res # "panicked" THEN {"C04"} ELSE {"C11"})
                         \cup (IF cu.c # 0 /\ D(m.sid).C[cu.c].pois # {} THEN {"C10"} ELSE {})
                         \cup (IF ApiTry(cu.api) /\ cu.quiet THEN {"C13"} ELSE {})
    [] ev.e = "enter" -> {"C04", "C02"}
    [] ev.e = "exit"  -> {"C02"}
    [] ev.e = "acc"   -> {"C02"}
    [] ev.e = "fin"   -> (IF ev.keyback THEN {"C03"} ELSE {}) \cup (IF cu.panicked THEN {"C11"} ELSE {})
                         \cup (IF cu.faulted THEN {"C12"} ELSE {})
    [] ev.e = "get"   -> {"C06"}
    [] ev.e = "probe" -> {"C06"}
    [] ev.e = "rawpanic" -> {"C12"}
    [] ev.e = "ctor"  -> {"C07"}
    [] ev.e = "panic" -> {"C11"} \cup (IF cu.c # 0 /\ D(m.sid).C[cu.c].pois # {} THEN {"C10"} ELSE {})
    [] ev.e = "op"    -> (IF ev.ph = "end" THEN {"C17"} ELSE {}) \cup (IF ev.name = "is_poisoned" /\ ev.ph = "end" THEN {"C10"} ELSE {})
    [] ev.e = "end"   -> {"C05", "C01"}
    [] OTHER          -> {}

RECURSIVE MonFold(_, _)
MonFold(m, evs) == IF evs = <<>> THEN m ELSE MonFold(MonStep(m, Head(evs)), Tail(evs))

=============================================================================
