----------------------------- MODULE Families -----------------------------
(***************************************************************************)
(* Building blocks for scenario families ("for all programs / inputs"):    *)
(* TLC enumerates the programs; nothing here is specific to one property.  *)
(***************************************************************************)
EXTENDS Structure, SequencesExt, FiniteSetsExt

\* all arrangements (sequences without repetition) of exactly the elements of S
RECURSIVE PermsOf(_)
PermsOf(S) == IF S = {} THEN {<<>>}
              ELSE UNION {{<<x>> \o p : p \in PermsOf(S \ {x})} : x \in S}

\* all arrangements of all subsets of U with lo..hi elements
Arrangements(U, lo, hi) == UNION {PermsOf(S) : S \in {T \in SUBSET U : Cardinality(T) \in lo..hi}}

SlotItems(slots) == [i \in 1..Len(slots) |-> [s |-> slots[i], c |-> 0]]
MkColl(kind, ctor, slots) == [kind |-> kind, ctor |-> ctor, items |-> SlotItems(slots)]

Leaf(k)  == [k |-> k, ms |-> <<>>]
Unit(ms) == [k |-> "O", ms |-> ms]

\* body micro-operations and program items have uniform records (they travel through JSON)
Acc(pos, m) == [o |-> "acc", pos |-> pos, m |-> m, name |-> "", c |-> 0]
Call(api, c, key, rel, body) == [k |-> "call", api |-> api, c |-> c, key |-> key, rel |-> rel, body |-> body, name |-> ""]

NoFaults == [k |-> "none"]

\* leaves reachable from a list of top-level slots
SlotLeaves(arena, slots) == UNION {IF arena[s].k = "O" THEN SeqRange(arena[s].ms) ELSE {s} : s \in SeqRange(slots)}
AllRw(arena, slots) == \A l \in SlotLeaves(arena, slots) : arena[l].k = "R"

SetToSeqDet(S) == SetToSeq(S)
=============================================================================
