CONSTANTS
  VKinds = {"boxed", "retry", "owned", "ref", "pois"}
  VMaxN = 4
  VMaxOps = 2
INIT VInit
NEXT VNext
INVARIANT RetsWellFormed
CHECK_DEADLOCK FALSE
