------------------------------ MODULE MC_conc ------------------------------
(***************************************************************************)
(* Family "conc": NT threads, one call each, over a shared arena           *)
(*   slot 1,2 : RwLock   slot 3 : Mutex                                    *)
(*   slot 4   : OwnedLockCollection over the private RwLocks 6,5 (listing  *)
(*              order 6,5 differs from address order)                      *)
(* Every thread's call ranges over kind x arrangement x api; TLC explores  *)
(* every interleaving of every scenario.                                   *)
(***************************************************************************)
EXTENDS HappyLock, Families, Json

CONSTANTS Kinds,      \* subset of {"single","owned","boxed","ref","retry"}
          ApisA,      \* api set of thread 1
          ApisB,      \* api set of the other threads
          UnivA, UnivB, \* top-level slots the call of thread 1 / the others may list
          MaxLenA, MaxLenB,
          Policies,   \* subset of {"RP","WP"}
          NT,         \* number of threads (2 or 3)
          Keys,       \* key styles for scoped calls, subset of {"lent","owned"}
          PartK, PartN \* this TLC process explores scenarios i with i % PartN = PartK

Arena == <<Leaf("R"), Leaf("R"), Leaf("M"), Unit(<<6, 5>>), Leaf("R"), Leaf("R")>>

SlotLists(kind, U, maxlen) ==
  IF kind = "single" THEN {<<s>> : s \in {x \in U : Arena[x].k # "O"}}
  ELSE IF kind = "owned" THEN {<<s>> : s \in {x \in U : Arena[x].k = "O"}}
  ELSE Arrangements(U, 1, maxlen)

CallSpecs(apis, U, maxlen) ==
  {cs \in [kind : Kinds, slots : UNION {SlotLists(k, U, maxlen) : k \in Kinds}, api : apis, key : Keys] :
     /\ cs.slots \in SlotLists(cs.kind, U, maxlen)
     /\ ApiMode(cs.api) = "r" => AllRw(Arena, cs.slots)
     /\ ~ApiScoped(cs.api) => cs.key = "owned"}

MkScen(css, pol) ==
  LET colls == [i \in 1..Len(css) |-> MkColl(css[i].kind, "try_new", css[i].slots)]
      sc0   == [arena |-> Arena, colls |-> colls, progs |-> <<>>, policy |-> pol, faults |-> NoFaults]
      body(i) == LET P == PathsC(sc0, i)
                     p == CHOOSE p \in P : \A q \in P : Len(p) <= Len(q)
                 IN <<Acc(p, ApiMode(css[i].api))>>
  IN [sc0 EXCEPT !.progs = [i \in 1..Len(css) |->
        <<Call(css[i].api, i, css[i].key, IF ApiScoped(css[i].api) THEN "scope" ELSE "drop", body(i))>>]]

Combos == IF NT = 2 THEN {<<a, b>> : a \in CallSpecs(ApisA, UnivA, MaxLenA), b \in CallSpecs(ApisB, UnivB, MaxLenB)}
          ELSE {<<a, b, c>> : a \in CallSpecs(ApisA, UnivA, MaxLenA),
                              b \in CallSpecs(ApisB, UnivB, MaxLenB), c \in CallSpecs(ApisB, UnivB, MaxLenB)}

RawScens == SetToSeq({MkScen(cb, pol) : cb \in Combos, pol \in Policies})

\* (one line per scenario is printed for the replay generator)
Mine(i) == i % PartN = PartK
\* NB: a definition used as a CONSTANT override is re-evaluated by TLC on every
\* use; the indirection MCScenTab == MCScenTab0 makes the table a cached value.
MCScenTab0 == LET rs == RawScens IN
             [i \in 1..Len(rs) |-> IF Mine(i) /\ PrintT(<<"SCEN", i, ToJson(rs[i])>>) THEN Derive(rs[i]) ELSE <<>>]
MCScenTab == MCScenTab0
MCInit == \E s \in {i \in 1..Len(ScenTab) : Mine(i)} : InitFor(s)

NextP == Next /\ PrintT(<<"E", sid, hist'>>)
=============================================================================
