CONSTANTS
  VKinds = {"boxed", "retry", "owned", "ref", "pois"}
  VMaxN = 3
  VMaxOps = 1
INIT VInit
NEXT VNext
INVARIANT RetsWellFormed
CHECK_DEADLOCK FALSE
