------------------------------ MODULE TraceRaw ------------------------------
(***************************************************************************)
(* Stage 2: raw-lock-level validation of executions of the repository's    *)
(* OWN test suite on real parking_lot locks, recorded by the cfg-gated     *)
(* hook src/verif_hook.rs (acquisitions are logged after they happened,    *)
(* releases before they happen, so conflicting operations on one lock are  *)
(* totally ordered in the file).  Only the raw-level parts of C02          *)
(* (exclusion) and C05 (a release is of a hold the thread has, in its      *)
(* mode) can be judged at this level.  One trace file = one test process;  *)
(* "new" lines separate the files concatenated into one run.               *)
(***************************************************************************)
EXTENDS Naturals, Sequences, FiniteSets, TLC, Json, IOUtils

Rec0 == ndJsonDeserialize(IOEnv.TRACE)
Rec == Rec0

VARIABLES ti, hw, hr, found, tests

rvars == <<ti, hw, hr, found, tests>>

Locks0 == {Rec[i].l : i \in {j \in 1..Len(Rec) : Rec[j].e # "new"}}
Locks == Locks0
Thr0 == {Rec[i].t : i \in {j \in 1..Len(Rec) : Rec[j].e # "new"}}
Thr == Thr0

Clean == /\ hw' = [l \in Locks |-> 0] /\ hr' = [l \in Locks |-> [t \in Thr |-> 0]]

RInit == ti = 1 /\ hw = [l \in Locks |-> 0] /\ hr = [l \in Locks |-> [t \in Thr |-> 0]] /\ found = {} /\ tests = 0

Flag(p, s, ev) == found' = found \cup {[p |-> p, s |-> s, x |-> tests, ln |-> ti]}
Readers(l) == {t \in Thr : hr[l][t] > 0}

RNext ==
  /\ ti <= Len(Rec)
  /\ ti' = ti + 1
  /\ LET ev == Rec[ti] IN
     IF ev.e = "new" THEN Clean /\ tests' = tests + 1 /\ UNCHANGED found
     ELSE
     /\ tests' = tests
     /\ IF ev.e = "acq" \/ (ev.e = "try" /\ ev.ok)
        THEN IF ev.m = "w"
             THEN /\ hw' = [hw EXCEPT ![ev.l] = ev.t] /\ hr' = hr
                  /\ IF hw[ev.l] # 0 \/ Readers(ev.l) # {} THEN Flag("C02", "raw/exclusive-hold-granted-while-lock-is-held", ev)
                     ELSE UNCHANGED found
             ELSE /\ hr' = [hr EXCEPT ![ev.l][ev.t] = @ + 1] /\ hw' = hw
                  /\ IF hw[ev.l] # 0 THEN Flag("C02", "raw/shared-hold-granted-while-lock-is-held-exclusively", ev)
                     ELSE UNCHANGED found
        ELSE IF ev.e = "rel"
        THEN IF ev.m = "w"
             THEN /\ hw' = [hw EXCEPT ![ev.l] = IF hw[ev.l] = ev.t THEN 0 ELSE @] /\ hr' = hr
                  /\ IF hw[ev.l] # ev.t THEN Flag("C05", "raw/exclusive-release-of-a-hold-the-thread-does-not-have", ev)
                     ELSE UNCHANGED found
             ELSE /\ hr' = [hr EXCEPT ![ev.l][ev.t] = IF @ > 0 THEN @ - 1 ELSE 0] /\ hw' = hw
                  /\ IF hr[ev.l][ev.t] = 0 THEN Flag("C05", "raw/shared-release-of-a-hold-the-thread-does-not-have", ev)
                     ELSE UNCHANGED found
        ELSE UNCHANGED <<hw, hr, found>>

Report ==
  ti = Len(Rec) + 1 =>
    /\ \A v \in found : PrintT("VIOL " \o ToJson(v))
    /\ PrintT(<<"STATS", Len(Rec), tests, tests>>)

Consumed == TLCGet("stats").diameter = Len(Rec) + 1
=============================================================================
