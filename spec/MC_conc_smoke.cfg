CONSTANTS
  ScenTab <- MCScenTab
  Kinds = {"single","boxed","retry"}
  ApisA = {"lock","try_lock"}
  ApisB = {"lock"}
  UnivA = {1,2}
  UnivB = {1,2}
  MaxLenA = 2
  MaxLenB = 2
  Policies = {"RP"}
  NT = 2
  Keys = {"owned"}
  PartK = 0
  PartN = 1
INIT Init
NEXT Next
VIEW View
INVARIANT NoViolation
INVARIANT NotStuck
INVARIANT TablesAgree
CHECK_DEADLOCK FALSE
