----------------------------- MODULE HappyLock -----------------------------
(***************************************************************************)
(* Implementation-shaped model of happylock.                               *)
(*                                                                         *)
(* One model step of thread t = "perform the raw lock operation (or        *)
(* explicit scheduling point) t is parked at, then run t's thread-local    *)
(* code up to its next raw lock operation".  This is exactly the grain at  *)
(* which the conformance harness schedules the real code (one virtual      *)
(* thread runs at a time and parks before every raw operation), so a       *)
(* schedule of the model is a schedule of the implementation and vice      *)
(* versa.  Each step emits the sequence of events of /verif/DESIGN.md 3.4; *)
(* the same events are recorded from the real code.                        *)
(*                                                                         *)
(* A thread's control state is a continuation `todo`: a sequence of items. *)
(*   visible items (the thread is parked in front of them):                *)
(*     [k:"start"]                      thread not yet started             *)
(*     [k:"Y"]                          scheduling point inside a CS       *)
(*     [k:"A", alg, c, m, ph, fi, i, j] acquisition frame; registers as in *)
(*                                      utils::ordered_* / retry.rs        *)
(*     [k:"U", ls, m, i, why]           release loop over the leaf list ls *)
(*   local items (executed inside a step, no interleaving):                *)
(*     call, ret, enter, exit, acc, fin, ...                               *)
(***************************************************************************)
EXTENDS Monitor

CONSTANT KnownSigs,  \* set of "<property>|<signature>" strings of known findings
         TrackHist   \* TRUE: record the schedule / last events (observation variables, hidden by VIEW);
                     \* FALSE for liveness checking, where TLC cannot use a VIEW

VARIABLES sid,      \* index into ScenTab
          hw, hr,   \* raw lock environment: exclusive holder / shared-hold count per leaf
          th,       \* per thread: [todo, pc, kl, fin]
          kf,       \* per thread: thread-local "key taken" flag (src/key.rs KeyCell)
          val,      \* per leaf: protected value (number of writes so far)
          pflag,    \* per collection: poison flag of a Poisonable wrapper (FALSE for other kinds)
          killed,   \* per leaf: the lock's own PoisonFlag ("killed": a raw operation of it panicked)
          nops,     \* number of raw lock operations performed so far (only counted under a one-shot fault plan)
          mon,      \* monitor state (Monitor.tla)
          hist,     \* schedule so far (thread ids); observation only, hidden by VIEW
          last      \* events emitted by the last step; observation only, hidden by VIEW

vars == <<sid, hw, hr, th, kf, val, pflag, killed, nops, mon, hist, last>>

Threads(d) == 1..d.nt

(***************************************************************************)
(* Raw lock environment (the lock_api contract, two wake policies)         *)
(***************************************************************************)
EnvFree(d, xhw, xhr, pendW, l, md, t) ==
  IF md = "w" THEN xhw[l] = 0 /\ \A u \in Threads(d) : xhr[l][u] = 0
  ELSE xhw[l] = 0 /\ (d.policy = "RP" \/ ~\E u \in Threads(d) : u # t /\ pendW[u] = l)

(***************************************************************************)
(* Acquisition frames                                                      *)
(***************************************************************************)
NextEntry(E, i, skip) ==
  LET S == {k \in (i+1)..Len(E) : k # skip /\ E[k] # <<>>} IN
  IF S = {} THEN 0 ELSE CHOOSE k \in S : \A k2 \in S : k <= k2

Frame(alg, c, m, ph, fi, i, j) == [k |-> "A", alg |-> alg, c |-> c, m |-> m, ph |-> ph, fi |-> fi, i |-> i, j |-> j]

\* start (or restart) a retry round whose blocking member is entry fi
RetryRound(d, c, m, fi) ==
  LET E == d.C[c].E IN
  IF E[fi] # <<>> THEN <<Frame("retry", c, m, "first", fi, 0, 1)>>
  ELSE LET n == NextEntry(E, 0, fi) IN
       IF n = 0 THEN <<>> ELSE <<Frame("retry", c, m, "rest", fi, n, 1)>>

InitA(d, alg, c, m) ==
  LET E == d.C[c].E IN
  IF alg = "retry" THEN (IF E = <<>> THEN <<>> ELSE RetryRound(d, c, m, 1))
  ELSE LET n == NextEntry(E, 0, 0) IN
       IF n = 0 THEN <<>> ELSE <<Frame(alg, c, m, "rest", 0, n, 1)>>

PendingA(d, fr) ==
  LET E == d.C[fr.c].E IN
  IF fr.ph = "first" THEN [op |-> "lock", l |-> E[fr.fi][fr.j], m |-> fr.m]
  ELSE [op |-> IF fr.alg = "ord" THEN "lock" ELSE "try", l |-> E[fr.i][fr.j], m |-> fr.m]

\* the frame after its pending operation succeeded (empty sequence: acquisition complete)
AdvA(d, fr) ==
  LET E == d.C[fr.c].E IN
  IF fr.ph = "first"
  THEN IF fr.j < Len(E[fr.fi]) THEN <<[fr EXCEPT !.j = @ + 1]>>
       ELSE LET n == NextEntry(E, 0, fr.fi) IN
            IF n = 0 THEN <<>> ELSE <<[fr EXCEPT !.ph = "rest", !.i = n, !.j = 1]>>
  ELSE IF fr.j < Len(E[fr.i]) THEN <<[fr EXCEPT !.j = @ + 1]>>
       ELSE LET n == NextEntry(E, fr.i, fr.fi) IN
            IF n = 0 THEN <<>> ELSE <<[fr EXCEPT !.i = n, !.j = 1]>>

UFrameC(ls, m, why, ctx) == IF ls = <<>> THEN <<>> ELSE <<[k |-> "U", ls |-> ls, m |-> m, i |-> 1, why |-> why, ctx |-> ctx]>>
UFrame(ls, m, why) == UFrameC(ls, m, why, <<>>)

\* the leaves released by the code when the try at (i, j) fails
\*   - the unit's own rollback  (ordered_try_*: `for lock in &locks[0..j]`)
\*   - the enclosing list's rollback (`&locks[0..i]`), in list order
\*   - retry only: `if first_index >= i { locks[first_index].raw_unlock() }`
Rollback(d, fr) ==
  LET E == d.C[fr.c].E
      inner == SubSeq(E[fr.i], 1, fr.j - 1)
      outer == Flatten([k \in 1..(fr.i - 1) |-> E[k]])
      first == IF fr.alg = "retry" /\ fr.fi > fr.i THEN E[fr.fi] ELSE <<>>
  IN inner \o outer \o first

(***************************************************************************)
(* Plans: the continuation of one program item                             *)
(***************************************************************************)
AlgOf(d, c, api) == IF d.C[c].alg = "retry" THEN (IF ApiTry(api) THEN "retrytry" ELSE "retry")
                    ELSE (IF ApiTry(api) THEN "ordtry" ELSE "ord")

OpPlan(d, name, c) ==
  \* a non-acquiring operation: `{:?}` formatting try-locks each leaf it reaches
  <<[k |-> "opb", name |-> name, c |-> c]>>
  \o (IF name = "debug" /\ d.C[c].dbg # <<>> THEN <<[k |-> "G", ls |-> d.C[c].dbg, i |-> 1, ph |-> "try"]>> ELSE <<>>)
  \o <<[k |-> "ope", name |-> name, c |-> c]>>

BodyOpPlan(d, op) ==
  CASE op.o = "acc"   -> <<[k |-> "Y"], [k |-> "acc", pos |-> op.pos, m |-> op.m]>>
    [] op.o = "panic" -> <<[k |-> "Y"], [k |-> "panic"]>>
    [] op.o = "op"    -> OpPlan(d, op.name, op.c)
    [] op.o = "probe" -> <<[k |-> "probe"]>>      \* ThreadKey::get() inside the critical section

BodyPlan(d, body) == Flatten([i \in 1..Len(body) |-> BodyOpPlan(d, body[i])])

Fin(keyback, dropkey) == [k |-> "fin", keyback |-> keyback, dropkey |-> dropkey]
FailTail == <<[k |-> "ret", res |-> "wouldblock"], Fin(TRUE, FALSE)>>

\* items executed when a guard of collection c is dropped (PoisonRef::drop sets
\* the flag only while the thread is panicking)
GuardDrop(d, c, m) ==
  Flatten([i \in 1..Len(d.C[c].gplan) |->
     LET sg == d.C[c].gplan[i] IN
     (IF sg.p # 0 THEN <<[k |-> "setp?", p |-> sg.p]>> ELSE <<>>) \o UFrame(sg.ls, m, "guard-drop")])

\* what the code does when user code panics inside call ca
UnwindPlan(d, ca) ==
  LET m == ApiMode(ca.api) IN
  IF ApiScoped(ca.api)
  THEN (IF d.C[ca.c].kind = "pois" THEN <<[k |-> "setp", p |-> ca.c]>> ELSE <<>>)   \* Poisonable::scoped_*: own flag only
       \o UFrame(d.C[ca.c].flat, m, "scope-unwind")
       \o <<[k |-> "ret", res |-> "panicked"], Fin(ca.key = "lent", ca.key # "lent")>>
  ELSE GuardDrop(d, ca.c, m) \o <<[k |-> "ret", res |-> "panicked"], Fin(FALSE, TRUE)>>

CallPlan(d, ca, ci) ==
  LET m   == ApiMode(ca.api)
      acq == InitA(d, AlgOf(d, ca.c, ca.api), ca.c, m)
  IN
  IF ApiScoped(ca.api)
  THEN <<[k |-> "call", ci |-> ci]>> \o acq \o <<[k |-> "enter"]>> \o BodyPlan(d, ca.body) \o <<[k |-> "exit"]>>
       \o UFrame(d.C[ca.c].flat, m, "scope-end")
       \o <<[k |-> "ret", res |-> "auto"], Fin(ca.key = "lent", ca.key # "lent")>>
  ELSE <<[k |-> "call", ci |-> ci]>> \o acq \o <<[k |-> "ret", res |-> "auto"]>> \o BodyPlan(d, ca.body)
       \o (IF ca.rel = "forget" THEN <<>> ELSE GuardDrop(d, ca.c, m))
       \o <<Fin(ca.rel = "unlock", ca.rel = "drop")>>

ItemPlan(d, t, pc) ==
  LET it == d.progs[t][pc] IN
  CASE it.k = "call" -> CallPlan(d, it, pc)
    [] it.k = "op"   -> OpPlan(d, it.name, it.c)
    [] OTHER         -> <<[k |-> it.k]>>       \* probe, getkey, dropkey, forgetkey

(***************************************************************************)
(* Unwinding AS CODED when a raw lock operation panics (DESIGN.md App. B). *)
(* The leaf is killed by Mutex/RwLock::raw_*'s own handle_unwind; then the *)
(* enclosing handle_unwind handlers run.  Nothing here is idealised: the   *)
(* release lists are exactly the ones the code computes from `locked`,     *)
(* `first_index`, `&locks[0..i]`.                                          *)
(***************************************************************************)
\* value of retry.rs's / utils.rs's `locked` counter when entry i is being tried
LockedAt(alg, fi, i) == IF alg = "retry" THEN Cardinality({k \in 1..(i - 1) : k # fi}) ELSE i - 1

\* releases issued by the handlers around an acquisition frame whose pending op panics
\* (retry.rs after fix: the handler knows whether the blocking acquisition of locks[first_index]
\* has returned, and releases exactly the members that are held)
RetryHeldList(E, fi, L) ==     \* &locks[0..end] plus first_index if it lies behind
  LET end == IF fi - 1 < L THEN L + 1 ELSE L IN
  Flatten([k \in 1..end |-> E[k]]) \o (IF fi > end THEN E[fi] ELSE <<>>)
HandlersA(d, fr) ==
  LET E == d.C[fr.c].E IN
  IF fr.ph = "first"
  THEN \* only the owned unit's own ordered_* handler runs: the first lock is not held
       UFrame(SubSeq(E[fr.fi], 1, fr.j - 1), fr.m, "recover")
  ELSE LET inner == SubSeq(E[fr.i], 1, fr.j - 1)
           L     == LockedAt(fr.alg, fr.fi, fr.i)
           outer == IF fr.alg = "retry" THEN RetryHeldList(E, fr.fi, L) ELSE Flatten([k \in 1..L |-> E[k]])
       IN UFrame(inner, fr.m, "recover") \o UFrame(outer, fr.m, "recover")

\* a release of a rollback loop panics at position it.i of it.ls = inner \o outer \o first
RollbackCtx(d, fr) == [alg |-> fr.alg, c |-> fr.c, fi |-> fr.fi, ei |-> fr.i, ej |-> fr.j]
HandlersU(d, it) ==
  LET cx    == it.ctx
      E     == d.C[cx.c].E
      inner == SubSeq(E[cx.ei], 1, cx.ej - 1)
      L     == LockedAt(cx.alg, cx.fi, cx.ei)
      again == IF cx.alg = "retry" THEN UFrame(RetryHeldList(E, cx.fi, L), it.m, "recover")
               ELSE UFrame(Flatten([k \in 1..L |-> E[k]]), it.m, "recover")
  IN IF it.i <= Len(inner) THEN UFrame(inner, it.m, "recover") \o again ELSE again
\* attempt_to_recover_*'s own handler "poisons what remains": it kills every lock of its list
KillAllU(d, it) ==
  LET cx    == it.ctx
      E     == d.C[cx.c].E
      inner == SubSeq(E[cx.ei], 1, cx.ej - 1)
      olist == Flatten([k \in 1..(cx.ei - 1) |-> E[k]])
  IN IF cx.alg \in {"retry", "retrytry"} /\ it.i > Len(inner) /\ it.i <= Len(inner) + Len(olist)
     THEN SeqRange(olist) ELSE {}

PanicTail(ca, res) ==
  IF ApiScoped(ca.api) THEN <<[k |-> "ret", res |-> res], Fin(ca.key = "lent", ca.key # "lent")>>
  ELSE <<[k |-> "ret", res |-> res], Fin(FALSE, TRUE)>>

\* continuation after the pending raw operation of the head item `it` panicked
FaultTodo(d, ca, it, rest) ==
  CASE it.k = "A" -> HandlersA(d, it) \o PanicTail(ca, "rawpanicked")
    [] it.k = "U" /\ it.why = "rollback" -> HandlersU(d, it) \o PanicTail(ca, "rawpanicked")
    [] it.k = "U" /\ it.why = "guard-drop" ->
         \* a guard's Drop panicked: the remaining guards (and the key) are still dropped while unwinding
         (IF it.i < Len(it.ls) THEN <<[it EXCEPT !.i = @ + 1]>> ELSE <<>>)
         \o SubSeq(rest, 1, Len(rest) - 1) \o PanicTail(ca, "rawpanicked")
    [] OTHER -> \* collection.raw_unlock_*() at the end of a scoped call: a plain loop, nothing else is released
         PanicTail(ca, "rawpanicked")

\* continuation when a try fails (or finds a killed lock)
FailTodo(d, it, rest) ==
  UFrameC(Rollback(d, it), it.m, "rollback", RollbackCtx(d, it))
  \o (IF it.alg = "retry" THEN RetryRound(d, it.c, it.m, it.i) \o rest ELSE FailTail)

FaultHit(d, n, l, op) ==
  \/ d.faults.k = "oneshot" /\ d.faults.at = n
  \/ d.faults.k = "persist" /\ d.faults.l = l /\ op \in SeqRange(d.faults.ops)

(***************************************************************************)
(* Thread-local execution up to the next visible item                      *)
(*   S == [todo, pc, kl, fin, kf, val, evs]                                *)
(***************************************************************************)
Visible(it) == it.k \in {"start", "Y", "A", "U", "G"}

CurCall(d, t, S) == d.progs[t][S.pc]

Ev(S, e) == [S EXCEPT !.evs = Append(@, e)]

\* Ok/Err verdicts of the Poisonable wrappers reached by collection c (own wrapper first)
PoisSnap(d, c, pf) == [i \in 1..Len(d.C[c].pseq) |-> pf[d.C[c].pseq[i]]]

RECURSIVE Run(_, _, _)
Run(d, t, S) ==
  IF S.fin THEN S
  ELSE IF S.todo = <<>>
  THEN IF S.pc < Len(d.progs[t])
       THEN Run(d, t, [S EXCEPT !.pc = @ + 1, !.todo = ItemPlan(d, t, S.pc + 1)])
       ELSE [S EXCEPT !.fin = TRUE, !.evs = Append(@, [e |-> "done", t |-> t])]
  ELSE
  LET it == Head(S.todo)
      rest == Tail(S.todo) IN
  IF it.k = "A" /\ S.kd[PendingA(d, it).l]
  THEN \* a killed lock: raw_try_* returns false, raw_write/raw_read panic ("has been killed"), both without a raw operation
       IF PendingA(d, it).op = "try" THEN Run(d, t, [S EXCEPT !.todo = FailTodo(d, it, rest)])
       ELSE Run(d, t, [S EXCEPT !.pk = TRUE, !.todo = HandlersA(d, it) \o PanicTail(CurCall(d, t, S), "libpanic")])
  ELSE IF it.k = "G" /\ it.ph = "try" /\ S.kd[it.ls[it.i]]
  THEN Run(d, t, [S EXCEPT !.todo = (IF it.i < Len(it.ls) THEN <<[it EXCEPT !.i = @ + 1]>> ELSE <<>>) \o rest])
  ELSE IF Visible(it)
  THEN IF it.k = "A" /\ PendingA(d, it).op = "lock"
       THEN [S EXCEPT !.evs = Append(@, [e |-> "req", t |-> t, l |-> PendingA(d, it).l, m |-> it.m])]
       ELSE S
  ELSE
  CASE it.k = "call" ->
         LET ca == CurCall(d, t, S) IN
         IF S.kl = "user"
         THEN Run(d, t, [S EXCEPT !.todo = rest, !.kl = "busy",
                           !.evs = Append(@, [e |-> "call", t |-> t, ci |-> it.ci, api |-> ca.api, c |-> ca.c,
                                              key |-> ca.key, rel |-> ca.rel])])
         ELSE IF ~S.kf      \* no key in hand: ThreadKey::get()
         THEN Run(d, t, [S EXCEPT !.kf = TRUE, !.kl = "user",
                           !.evs = Append(@, [e |-> "get", t |-> t, some |-> TRUE])])
         ELSE \* the key is gone for good (leaked): the thread gives up
              [S EXCEPT !.todo = <<>>, !.pc = Len(d.progs[t]), !.fin = TRUE,
                        !.evs = @ \o <<[e |-> "get", t |-> t, some |-> FALSE], [e |-> "done", t |-> t]>>]
    [] it.k = "ret" ->
         LET ca   == CurCall(d, t, S)
             errs == IF it.res = "auto" /\ ~ApiScoped(ca.api) THEN PoisSnap(d, ca.c, S.pf) ELSE S.ps
             res  == IF it.res # "auto" THEN it.res
                     ELSE IF d.C[ca.c].kind = "pois" /\ errs # <<>> /\ errs[1] THEN "poisoned" ELSE "ok" IN
         Run(d, t, [S EXCEPT !.todo = rest, !.ps = errs,
                      !.evs = Append(@, [e |-> "ret", t |-> t, ci |-> S.pc, res |-> res,
                                         errs |-> IF it.res = "auto" /\ ~ApiScoped(ca.api) THEN errs ELSE <<>>])])
    [] it.k = "enter" ->
         LET ca == CurCall(d, t, S) IN
         Run(d, t, [S EXCEPT !.todo = rest, !.ps = PoisSnap(d, ca.c, S.pf),
                      !.evs = Append(@, [e |-> "enter", t |-> t, ci |-> S.pc, errs |-> PoisSnap(d, ca.c, S.pf)])])
    [] it.k = "exit" ->
         Run(d, t, [S EXCEPT !.todo = rest, !.evs = Append(@, [e |-> "exit", t |-> t, ci |-> S.pc])])
    [] it.k = "acc" ->
         LET ca == CurCall(d, t, S)
             l  == LeafAtC(d.raw, ca.c, it.pos)
             nv == IF it.m = "w" THEN S.val[l] + 1 ELSE S.val[l] IN
         Run(d, t, [S EXCEPT !.todo = rest, !.val[l] = nv,
                      !.evs = Append(@, [e |-> "acc", t |-> t, ci |-> S.pc, pos |-> it.pos, m |-> it.m,
                                         lid |-> l, seen |-> S.val[l], wrote |-> nv])])
    [] it.k = "panic" ->
         Run(d, t, [S EXCEPT !.pk = TRUE, !.todo = UnwindPlan(d, CurCall(d, t, S)),
                      !.evs = Append(@, [e |-> "panic", t |-> t, ci |-> S.pc])])
    [] it.k = "setp" ->
         Run(d, t, [S EXCEPT !.todo = rest, !.pf[it.p] = TRUE])
    [] it.k = "setp?" ->    \* PoisonRef::drop: `if std::thread::panicking() { flag.poison() }`
         Run(d, t, [S EXCEPT !.todo = rest, !.pf[it.p] = (S.pf[it.p] \/ S.pk)])
    [] it.k = "fin" ->
         Run(d, t, [S EXCEPT !.todo = rest, !.pk = FALSE,
                      !.kl = IF it.keyback THEN "user" ELSE "none",
                      !.kf = IF it.dropkey THEN FALSE ELSE S.kf,
                      !.evs = Append(@, [e |-> "fin", t |-> t, ci |-> S.pc, keyback |-> it.keyback])])
    [] it.k = "opb" ->
         Run(d, t, [S EXCEPT !.todo = rest,
                      !.evs = Append(@, [e |-> "op", t |-> t, name |-> it.name, c |-> it.c, ph |-> "begin", res |-> ""])])
    [] it.k = "ope" ->
         LET res == IF it.name = "is_poisoned" THEN (IF S.pf[it.c] THEN "true" ELSE "false")
                    ELSE IF it.name = "dupcheck" THEN (IF d.C[it.c].lv = {} THEN "1111" ELSE "1010") ELSE "" IN
         Run(d, t, [S EXCEPT !.todo = rest,
                      !.pf = IF it.name = "clear_poison" THEN [S.pf EXCEPT ![it.c] = FALSE] ELSE S.pf,
                      !.evs = Append(@, [e |-> "op", t |-> t, name |-> it.name, c |-> it.c, ph |-> "end", res |-> res])])
    [] it.k = "probe" ->     \* ThreadKey::get(), dropped at once when Some
         Run(d, t, [S EXCEPT !.todo = rest, !.evs = Append(@, [e |-> "probe", t |-> t, some |-> ~S.kf])])
    [] it.k = "getkey" ->
         IF S.kl = "user" THEN Run(d, t, [S EXCEPT !.todo = rest])
         ELSE Run(d, t, [S EXCEPT !.todo = rest, !.kf = TRUE, !.kl = IF S.kf THEN "none" ELSE "user",
                           !.evs = Append(@, [e |-> "get", t |-> t, some |-> ~S.kf])])
    [] it.k = "dropkey" ->
         IF S.kl # "user" THEN Run(d, t, [S EXCEPT !.todo = rest])
         ELSE Run(d, t, [S EXCEPT !.todo = rest, !.kf = FALSE, !.kl = "none",
                           !.evs = Append(@, [e |-> "dropkey", t |-> t])])
    [] it.k = "forgetkey" ->
         IF S.kl # "user" THEN Run(d, t, [S EXCEPT !.todo = rest])
         ELSE Run(d, t, [S EXCEPT !.todo = rest, !.kl = "none",
                           !.evs = Append(@, [e |-> "forgetkey", t |-> t])])

(***************************************************************************)
(* One step of thread t                                                    *)
(***************************************************************************)
PendW(d) == [u \in Threads(d) |->
               IF th[u].todo # <<>> /\ Head(th[u].todo).k = "A"
                  /\ PendingA(d, Head(th[u].todo)).op = "lock" /\ Head(th[u].todo).m = "w"
               THEN PendingA(d, Head(th[u].todo)).l ELSE 0]

StepEnabled(d, t) ==
  /\ ~th[t].fin /\ th[t].todo # <<>>
  /\ LET it == Head(th[t].todo) IN
     it.k = "A" /\ PendingA(d, it).op = "lock"
       => EnvFree(d, hw, hr, PendW(d), PendingA(d, it).l, it.m, t)

LocalOf(t) == [todo |-> th[t].todo, pc |-> th[t].pc, kl |-> th[t].kl, fin |-> th[t].fin, ps |-> th[t].ps, pk |-> th[t].pk,
               kf |-> kf[t], val |-> val, pf |-> pflag, kd |-> killed, evs |-> <<>>]

\* result: [hw, hr, S]   (S as for Run, S.evs the events of the step)
RawOpOf(d, it) ==    \* [l, m, op] of the raw lock operation the head item is parked at
  CASE it.k = "A" -> [l |-> PendingA(d, it).l, m |-> it.m, op |-> PendingA(d, it).op]
    [] it.k = "U" -> [l |-> it.ls[it.i], m |-> it.m, op |-> "unlock"]
    [] it.k = "G" -> [l |-> it.ls[it.i], m |-> IF d.lk[it.ls[it.i]] = "M" THEN "w" ELSE "r",
                      op |-> IF it.ph = "try" THEN "try" ELSE "unlock"]

StepOf(d, t) ==
  LET S0   == LocalOf(t)
      it   == Head(S0.todo)
      rest == Tail(S0.todo)
      raw  == it.k \in {"A", "U", "G"}
      n1   == IF raw /\ d.faults.k = "oneshot" THEN nops + 1 ELSE nops IN
  IF raw /\ it.k # "G" /\ th[t].pc > 0 /\ d.progs[t][th[t].pc].k = "call"
     /\ FaultHit(d, n1, RawOpOf(d, it).l, RawOpOf(d, it).op)
  THEN \* injected fault: the operation has no effect and panics; the lock is killed
       LET ro == RawOpOf(d, it)
           kl2 == [l \in DOMAIN killed |-> killed[l] \/ l = ro.l
                      \/ (it.k = "U" /\ it.why = "rollback" /\ l \in KillAllU(d, it))] IN
       [hw |-> hw, hr |-> hr, nops |-> n1,
        S |-> Run(d, t, [S0 EXCEPT !.pk = TRUE, !.kd = kl2,
                           !.todo = FaultTodo(d, d.progs[t][th[t].pc], it, rest),
                           !.evs = <<[e |-> "rawpanic", t |-> t, l |-> ro.l, m |-> ro.m, op |-> ro.op]>>])]
  ELSE
  [nops |-> n1] @@
  CASE it.k = "start" ->
         [hw |-> hw, hr |-> hr,
          S |-> Run(d, t, [S0 EXCEPT !.todo = rest, !.evs = <<[e |-> "start", t |-> t]>>])]
    [] it.k = "Y" ->
         [hw |-> hw, hr |-> hr, S |-> Run(d, t, [S0 EXCEPT !.todo = rest])]
    [] it.k = "G" ->       \* `{:?}`: try_lock_no_key / try_read_no_key, value printed, guard dropped
         LET l   == it.ls[it.i]
             md  == IF d.lk[l] = "M" THEN "w" ELSE "r"
             nxt == IF it.i < Len(it.ls) THEN <<[it EXCEPT !.i = @ + 1, !.ph = "try"]>> ELSE <<>> IN
         IF it.ph = "try"
         THEN LET ok == EnvFree(d, hw, hr, PendW(d), l, md, t) IN
              [hw |-> IF ok /\ md = "w" THEN [hw EXCEPT ![l] = t] ELSE hw,
               hr |-> IF ok /\ md = "r" THEN [hr EXCEPT ![l][t] = @ + 1] ELSE hr,
               S  |-> Run(d, t, [S0 EXCEPT !.todo = (IF ok THEN <<[it EXCEPT !.ph = "rel"]>> ELSE nxt) \o rest,
                                   !.evs = <<[e |-> "try", t |-> t, l |-> l, m |-> md, ok |-> ok]>>])]
         ELSE [hw |-> IF md = "w" THEN [hw EXCEPT ![l] = 0] ELSE hw,
               hr |-> IF md = "r" THEN [hr EXCEPT ![l][t] = @ - 1] ELSE hr,
               S  |-> Run(d, t, [S0 EXCEPT !.todo = nxt \o rest,
                                   !.evs = <<[e |-> "rel", t |-> t, l |-> l, m |-> md]>>])]
    [] it.k = "U" ->
         LET l   == it.ls[it.i]
             has == IF it.m = "w" THEN hw[l] = t ELSE hr[l][t] > 0
             nxt == IF it.i < Len(it.ls) THEN <<[it EXCEPT !.i = @ + 1]>> ELSE <<>> IN
         [hw |-> IF has /\ it.m = "w" THEN [hw EXCEPT ![l] = 0] ELSE hw,
          hr |-> IF has /\ it.m = "r" THEN [hr EXCEPT ![l][t] = @ - 1] ELSE hr,
          S  |-> Run(d, t, [S0 EXCEPT !.todo = nxt \o rest,
                              !.evs = <<[e |-> "rel", t |-> t, l |-> l, m |-> it.m]>>])]
    [] it.k = "A" ->
         LET p  == PendingA(d, it)
             ok == EnvFree(d, hw, hr, PendW(d), p.l, p.m, t)
             nhw == IF p.m = "w" THEN [hw EXCEPT ![p.l] = t] ELSE hw
             nhr == IF p.m = "r" THEN [hr EXCEPT ![p.l][t] = @ + 1] ELSE hr IN
         IF p.op = "lock"
         THEN [hw |-> nhw, hr |-> nhr,
               S  |-> Run(d, t, [S0 EXCEPT !.todo = AdvA(d, it) \o rest,
                                   !.evs = <<[e |-> "acq", t |-> t, l |-> p.l, m |-> p.m]>>])]
         ELSE IF ok
         THEN [hw |-> nhw, hr |-> nhr,
               S  |-> Run(d, t, [S0 EXCEPT !.todo = AdvA(d, it) \o rest,
                                   !.evs = <<[e |-> "try", t |-> t, l |-> p.l, m |-> p.m, ok |-> TRUE]>>])]
         ELSE [hw |-> hw, hr |-> hr,
               S  |-> Run(d, t, [S0 EXCEPT
                        !.todo = FailTodo(d, it, rest),
                        !.evs = <<[e |-> "try", t |-> t, l |-> p.l, m |-> p.m, ok |-> FALSE]>>])]

(***************************************************************************)
(* Specification                                                           *)
(***************************************************************************)
InitTh(d) == [t \in Threads(d) |-> [todo |-> <<[k |-> "start"]>>, pc |-> 0, kl |-> "none", fin |-> FALSE, ps |-> <<>>, pk |-> FALSE]]

InitFor(s) ==
  LET d == D(s) IN
  /\ sid = s
  /\ hw = [l \in 1..d.nl |-> 0]
  /\ hr = [l \in 1..d.nl |-> [t \in Threads(d) |-> 0]]
  /\ th = InitTh(d)
  /\ kf = [t \in Threads(d) |-> FALSE]
  /\ val = [l \in 1..d.nl |-> 0]
  /\ pflag = [c \in 1..d.nc |-> FALSE]
  /\ killed = [l \in 1..d.nl |-> FALSE]
  /\ nops = 0
  /\ mon = MonInit(s)
  /\ hist = <<>>
  /\ last = <<>>

Init == \E s \in 1..Len(ScenTab) : InitFor(s)

Apply(d, t, ns) ==
  /\ hw' = ns.hw
  /\ hr' = ns.hr
  /\ th' = [th EXCEPT ![t] = [todo |-> ns.S.todo, pc |-> ns.S.pc, kl |-> ns.S.kl, fin |-> ns.S.fin, ps |-> ns.S.ps, pk |-> ns.S.pk]]
  /\ kf' = [kf EXCEPT ![t] = ns.S.kf]
  /\ val' = ns.S.val
  /\ pflag' = ns.S.pf
  /\ killed' = ns.S.kd
  /\ nops' = ns.nops

Step(t) ==
  LET d == D(sid) IN
  /\ t \in Threads(d)
  /\ StepEnabled(d, t)
  /\ LET ns == StepOf(d, t) IN
     /\ Apply(d, t, ns)
     /\ mon' = MonFold(mon, ns.S.evs)
     /\ last' = IF TrackHist THEN ns.S.evs ELSE <<>>
  /\ hist' = IF TrackHist THEN Append(hist, t) ELSE hist
  /\ UNCHANGED sid

AllDone == \A t \in Threads(D(sid)) : th[t].fin

\* when everybody is finished the harness emits "end": one closing step
Finish ==
  /\ AllDone /\ ~mon.ended
  /\ mon' = MonStep(mon, [e |-> "end"])
  /\ last' = IF TrackHist THEN <<[e |-> "end"]>> ELSE <<>>
  /\ UNCHANGED <<sid, hw, hr, th, kf, val, pflag, killed, nops, hist>>

Next == (\E t \in 1..D(sid).nt : Step(t)) \/ Finish

Spec == Init /\ [][Next]_vars /\ \A t \in 1..4 : WF_vars(Step(t))

\* C01 as a liveness property of the model: under weak fairness of every thread (and of the closing
\* step) every execution of a family WITHOUT retrying collections terminates.  (A retrying collection
\* admits the documented lock-step livelock; for it the claim is C09.)
Terminates == <>(mon.ended)

(***************************************************************************)
(* Properties checked on the model itself                                  *)
(***************************************************************************)
\* C01 on the model: some thread is unfinished and nobody can move
ModelStuck == ~AllDone /\ \A t \in Threads(D(sid)) : ~StepEnabled(D(sid), t)

\* the model's lock table and the monitor's agree (sanity of the event encoding)
TablesAgree == mon.hw = hw /\ mon.hr = hr

\* the model reproduces the code as it is, including the defects recorded in
\* /verif/known_findings.json: exactly those signatures are tolerated
NoViolation == \A v \in mon.viol : (v.p \o "|" \o v.s) \in KnownSigs
\* (waiting for a lock whose guard was leaked on purpose is not a deadlock of happylock)
NotStuck    == ~(ModelStuck /\ mon.leaked = {})

View == <<sid, hw, hr, th, kf, val, pflag, killed, nops, mon>>
EvAlias == [last |-> last, hist |-> hist]
NotEnded == ~mon.ended
=============================================================================
