----------------------------- MODULE HappyLock -----------------------------
(***************************************************************************)
(* Implementation-shaped model of happylock.                               *)
(*                                                                         *)
(* One model step of thread t = "perform the raw lock operation (or        *)
(* explicit scheduling point) t is parked at, then run t's thread-local    *)
(* code up to its next raw lock operation".  This is exactly the grain at  *)
(* which the conformance harness schedules the real code (one virtual      *)
(* thread runs at a time and parks before every raw operation), so a       *)
(* schedule of the model is a schedule of the implementation and vice      *)
(* versa.  Each step emits the sequence of events of /verif/DESIGN.md 3.4; *)
(* the same events are recorded from the real code.                        *)
(*                                                                         *)
(* A thread's control state is a continuation `todo`: a sequence of items. *)
(*   visible items (the thread is parked in front of them):                *)
(*     [k:"start"]                      thread not yet started             *)
(*     [k:"Y"]                          scheduling point inside a CS       *)
(*     [k:"A", alg, c, m, ph, fi, i, j] acquisition frame; registers as in *)
(*                                      utils::ordered_* / retry.rs        *)
(*     [k:"U", ls, m, i, why]           release loop over the leaf list ls *)
(*   local items (executed inside a step, no interleaving):                *)
(*     call, ret, enter, exit, acc, fin, ...                               *)
(***************************************************************************)
EXTENDS Monitor

VARIABLES sid,      \* index into ScenTab
          hw, hr,   \* raw lock environment: exclusive holder / shared-hold count per leaf
          th,       \* per thread: [todo, pc, kl, fin]
          kf,       \* per thread: thread-local "key taken" flag (src/key.rs KeyCell)
          val,      \* per leaf: protected value (number of writes so far)
          mon,      \* monitor state (Monitor.tla)
          hist,     \* schedule so far (thread ids); observation only, hidden by VIEW
          last      \* events emitted by the last step; observation only, hidden by VIEW

vars == <<sid, hw, hr, th, kf, val, mon, hist, last>>

Threads(d) == 1..d.nt

(***************************************************************************)
(* Raw lock environment (the lock_api contract, two wake policies)         *)
(***************************************************************************)
EnvFree(d, xhw, xhr, pendW, l, md, t) ==
  IF md = "w" THEN xhw[l] = 0 /\ \A u \in Threads(d) : xhr[l][u] = 0
  ELSE xhw[l] = 0 /\ (d.policy = "RP" \/ ~\E u \in Threads(d) : u # t /\ pendW[u] = l)

(***************************************************************************)
(* Acquisition frames                                                      *)
(***************************************************************************)
NextEntry(E, i, skip) ==
  LET S == {k \in (i+1)..Len(E) : k # skip /\ E[k] # <<>>} IN
  IF S = {} THEN 0 ELSE CHOOSE k \in S : \A k2 \in S : k <= k2

Frame(alg, c, m, ph, fi, i, j) == [k |-> "A", alg |-> alg, c |-> c, m |-> m, ph |-> ph, fi |-> fi, i |-> i, j |-> j]

\* start (or restart) a retry round whose blocking member is entry fi
RetryRound(d, c, m, fi) ==
  LET E == d.C[c].E IN
  IF E[fi] # <<>> THEN <<Frame("retry", c, m, "first", fi, 0, 1)>>
  ELSE LET n == NextEntry(E, 0, fi) IN
       IF n = 0 THEN <<>> ELSE <<Frame("retry", c, m, "rest", fi, n, 1)>>

InitA(d, alg, c, m) ==
  LET E == d.C[c].E IN
  IF alg = "retry" THEN (IF E = <<>> THEN <<>> ELSE RetryRound(d, c, m, 1))
  ELSE LET n == NextEntry(E, 0, 0) IN
       IF n = 0 THEN <<>> ELSE <<Frame(alg, c, m, "rest", 0, n, 1)>>

PendingA(d, fr) ==
  LET E == d.C[fr.c].E IN
  IF fr.ph = "first" THEN [op |-> "lock", l |-> E[fr.fi][fr.j], m |-> fr.m]
  ELSE [op |-> IF fr.alg = "ord" THEN "lock" ELSE "try", l |-> E[fr.i][fr.j], m |-> fr.m]

\* the frame after its pending operation succeeded (empty sequence: acquisition complete)
AdvA(d, fr) ==
  LET E == d.C[fr.c].E IN
  IF fr.ph = "first"
  THEN IF fr.j < Len(E[fr.fi]) THEN <<[fr EXCEPT !.j = @ + 1]>>
       ELSE LET n == NextEntry(E, 0, fr.fi) IN
            IF n = 0 THEN <<>> ELSE <<[fr EXCEPT !.ph = "rest", !.i = n, !.j = 1]>>
  ELSE IF fr.j < Len(E[fr.i]) THEN <<[fr EXCEPT !.j = @ + 1]>>
       ELSE LET n == NextEntry(E, fr.i, fr.fi) IN
            IF n = 0 THEN <<>> ELSE <<[fr EXCEPT !.i = n, !.j = 1]>>

UFrame(ls, m, why) == IF ls = <<>> THEN <<>> ELSE <<[k |-> "U", ls |-> ls, m |-> m, i |-> 1, why |-> why]>>

\* the leaves released by the code when the try at (i, j) fails
\*   - the unit's own rollback  (ordered_try_*: `for lock in &locks[0..j]`)
\*   - the enclosing list's rollback (`&locks[0..i]`), in list order
\*   - retry only: `if first_index >= i { locks[first_index].raw_unlock() }`
Rollback(d, fr) ==
  LET E == d.C[fr.c].E
      inner == SubSeq(E[fr.i], 1, fr.j - 1)
      outer == Flatten([k \in 1..(fr.i - 1) |-> E[k]])
      first == IF fr.alg = "retry" /\ fr.fi > fr.i THEN E[fr.fi] ELSE <<>>
  IN inner \o outer \o first

(***************************************************************************)
(* Plans: the continuation of one program item                             *)
(***************************************************************************)
AlgOf(d, c, api) == IF d.C[c].alg = "retry" THEN (IF ApiTry(api) THEN "retrytry" ELSE "retry")
                    ELSE (IF ApiTry(api) THEN "ordtry" ELSE "ord")

BodyPlan(body) == Flatten([i \in 1..Len(body) |->
                    <<[k |-> "Y"], [k |-> "acc", pos |-> body[i].pos, m |-> body[i].m]>>])

FailTail == <<[k |-> "ret", res |-> "wouldblock"], [k |-> "fin", keyback |-> TRUE]>>

CallPlan(d, ca, ci) ==
  LET m   == ApiMode(ca.api)
      acq == InitA(d, AlgOf(d, ca.c, ca.api), ca.c, m)
  IN
  IF ApiScoped(ca.api)
  THEN <<[k |-> "call", ci |-> ci]>> \o acq \o <<[k |-> "enter"]>> \o BodyPlan(ca.body) \o <<[k |-> "exit"]>>
       \o UFrame(d.C[ca.c].flat, m, "scope-end")
       \o <<[k |-> "ret", res |-> "ok"], [k |-> "fin", keyback |-> (ca.key = "lent")]>>
  ELSE <<[k |-> "call", ci |-> ci]>> \o acq \o <<[k |-> "ret", res |-> "ok"]>> \o BodyPlan(ca.body)
       \o (IF ca.rel = "forget" THEN <<>> ELSE UFrame(d.C[ca.c].decl, m, "guard-drop"))
       \o <<[k |-> "fin", keyback |-> (ca.rel = "unlock")]>>

ItemPlan(d, t, pc) == CallPlan(d, d.progs[t][pc], pc)

(***************************************************************************)
(* Thread-local execution up to the next visible item                      *)
(*   S == [todo, pc, kl, fin, kf, val, evs]                                *)
(***************************************************************************)
Visible(it) == it.k \in {"start", "Y", "A", "U"}

CurCall(d, t, S) == d.progs[t][S.pc]

RECURSIVE Run(_, _, _)
Run(d, t, S) ==
  IF S.fin THEN S
  ELSE IF S.todo = <<>>
  THEN IF S.pc < Len(d.progs[t])
       THEN Run(d, t, [S EXCEPT !.pc = @ + 1, !.todo = ItemPlan(d, t, S.pc + 1)])
       ELSE [S EXCEPT !.fin = TRUE, !.evs = Append(@, [e |-> "done", t |-> t])]
  ELSE
  LET it == Head(S.todo)
      rest == Tail(S.todo) IN
  IF Visible(it)
  THEN IF it.k = "A" /\ PendingA(d, it).op = "lock"
       THEN [S EXCEPT !.evs = Append(@, [e |-> "req", t |-> t, l |-> PendingA(d, it).l, m |-> it.m])]
       ELSE S
  ELSE
  CASE it.k = "call" ->
         LET ca == CurCall(d, t, S) IN
         IF S.kl = "user"
         THEN Run(d, t, [S EXCEPT !.todo = rest, !.kl = "busy",
                           !.evs = Append(@, [e |-> "call", t |-> t, ci |-> it.ci, api |-> ca.api, c |-> ca.c,
                                              key |-> ca.key, rel |-> ca.rel])])
         ELSE IF ~S.kf      \* no key in hand: ThreadKey::get()
         THEN Run(d, t, [S EXCEPT !.kf = TRUE, !.kl = "user",
                           !.evs = Append(@, [e |-> "get", t |-> t, some |-> TRUE])])
         ELSE \* the key is gone for good (leaked): the thread gives up
              [S EXCEPT !.todo = <<>>, !.pc = Len(d.progs[t]), !.fin = TRUE,
                        !.evs = @ \o <<[e |-> "get", t |-> t, some |-> FALSE], [e |-> "done", t |-> t]>>]
    [] it.k = "ret" ->
         Run(d, t, [S EXCEPT !.todo = rest, !.evs = Append(@, [e |-> "ret", t |-> t, ci |-> S.pc, res |-> it.res])])
    [] it.k = "enter" ->
         Run(d, t, [S EXCEPT !.todo = rest, !.evs = Append(@, [e |-> "enter", t |-> t, ci |-> S.pc])])
    [] it.k = "exit" ->
         Run(d, t, [S EXCEPT !.todo = rest, !.evs = Append(@, [e |-> "exit", t |-> t, ci |-> S.pc])])
    [] it.k = "acc" ->
         LET ca == CurCall(d, t, S)
             l  == LeafAtC(d.raw, ca.c, it.pos)
             nv == IF it.m = "w" THEN S.val[l] + 1 ELSE S.val[l] IN
         Run(d, t, [S EXCEPT !.todo = rest, !.val[l] = nv,
                      !.evs = Append(@, [e |-> "acc", t |-> t, ci |-> S.pc, pos |-> it.pos, m |-> it.m,
                                         lid |-> l, seen |-> S.val[l], wrote |-> nv])])
    [] it.k = "fin" ->
         LET ca == CurCall(d, t, S) IN
         Run(d, t, [S EXCEPT !.todo = rest,
                      !.kl = IF it.keyback THEN "user" ELSE "none",
                      !.kf = IF it.keyback \/ ca.rel = "forget" THEN S.kf ELSE FALSE,
                      !.evs = Append(@, [e |-> "fin", t |-> t, ci |-> S.pc, keyback |-> it.keyback])])

(***************************************************************************)
(* One step of thread t                                                    *)
(***************************************************************************)
PendW(d) == [u \in Threads(d) |->
               IF th[u].todo # <<>> /\ Head(th[u].todo).k = "A"
                  /\ PendingA(d, Head(th[u].todo)).op = "lock" /\ Head(th[u].todo).m = "w"
               THEN PendingA(d, Head(th[u].todo)).l ELSE 0]

StepEnabled(d, t) ==
  /\ ~th[t].fin /\ th[t].todo # <<>>
  /\ LET it == Head(th[t].todo) IN
     it.k = "A" /\ PendingA(d, it).op = "lock"
       => EnvFree(d, hw, hr, PendW(d), PendingA(d, it).l, it.m, t)

LocalOf(t) == [todo |-> th[t].todo, pc |-> th[t].pc, kl |-> th[t].kl, fin |-> th[t].fin,
               kf |-> kf[t], val |-> val, evs |-> <<>>]

\* result: [hw, hr, S]   (S as for Run, S.evs the events of the step)
StepOf(d, t) ==
  LET S0   == LocalOf(t)
      it   == Head(S0.todo)
      rest == Tail(S0.todo) IN
  CASE it.k = "start" ->
         [hw |-> hw, hr |-> hr,
          S |-> Run(d, t, [S0 EXCEPT !.todo = rest, !.evs = <<[e |-> "start", t |-> t]>>])]
    [] it.k = "Y" ->
         [hw |-> hw, hr |-> hr, S |-> Run(d, t, [S0 EXCEPT !.todo = rest])]
    [] it.k = "U" ->
         LET l   == it.ls[it.i]
             has == IF it.m = "w" THEN hw[l] = t ELSE hr[l][t] > 0
             nxt == IF it.i < Len(it.ls) THEN <<[it EXCEPT !.i = @ + 1]>> ELSE <<>> IN
         [hw |-> IF has /\ it.m = "w" THEN [hw EXCEPT ![l] = 0] ELSE hw,
          hr |-> IF has /\ it.m = "r" THEN [hr EXCEPT ![l][t] = @ - 1] ELSE hr,
          S  |-> Run(d, t, [S0 EXCEPT !.todo = nxt \o rest,
                              !.evs = <<[e |-> "rel", t |-> t, l |-> l, m |-> it.m]>>])]
    [] it.k = "A" ->
         LET p  == PendingA(d, it)
             ok == EnvFree(d, hw, hr, PendW(d), p.l, p.m, t)
             nhw == IF p.m = "w" THEN [hw EXCEPT ![p.l] = t] ELSE hw
             nhr == IF p.m = "r" THEN [hr EXCEPT ![p.l][t] = @ + 1] ELSE hr IN
         IF p.op = "lock"
         THEN [hw |-> nhw, hr |-> nhr,
               S  |-> Run(d, t, [S0 EXCEPT !.todo = AdvA(d, it) \o rest,
                                   !.evs = <<[e |-> "acq", t |-> t, l |-> p.l, m |-> p.m]>>])]
         ELSE IF ok
         THEN [hw |-> nhw, hr |-> nhr,
               S  |-> Run(d, t, [S0 EXCEPT !.todo = AdvA(d, it) \o rest,
                                   !.evs = <<[e |-> "try", t |-> t, l |-> p.l, m |-> p.m, ok |-> TRUE]>>])]
         ELSE [hw |-> hw, hr |-> hr,
               S  |-> Run(d, t, [S0 EXCEPT
                        !.todo = UFrame(Rollback(d, it), it.m, "rollback")
                                 \o (IF it.alg = "retry" THEN RetryRound(d, it.c, it.m, it.i) \o rest ELSE FailTail),
                        !.evs = <<[e |-> "try", t |-> t, l |-> p.l, m |-> p.m, ok |-> FALSE]>>])]

(***************************************************************************)
(* Specification                                                           *)
(***************************************************************************)
InitTh(d) == [t \in Threads(d) |-> [todo |-> <<[k |-> "start"]>>, pc |-> 0, kl |-> "none", fin |-> FALSE]]

InitFor(s) ==
  LET d == D(s) IN
  /\ sid = s
  /\ hw = [l \in 1..d.nl |-> 0]
  /\ hr = [l \in 1..d.nl |-> [t \in Threads(d) |-> 0]]
  /\ th = InitTh(d)
  /\ kf = [t \in Threads(d) |-> FALSE]
  /\ val = [l \in 1..d.nl |-> 0]
  /\ mon = MonInit(s)
  /\ hist = <<>>
  /\ last = <<>>

Init == \E s \in 1..Len(ScenTab) : InitFor(s)

Apply(d, t, ns) ==
  /\ hw' = ns.hw
  /\ hr' = ns.hr
  /\ th' = [th EXCEPT ![t] = [todo |-> ns.S.todo, pc |-> ns.S.pc, kl |-> ns.S.kl, fin |-> ns.S.fin]]
  /\ kf' = [kf EXCEPT ![t] = ns.S.kf]
  /\ val' = ns.S.val

Step(t) ==
  LET d == D(sid) IN
  /\ t \in Threads(d)
  /\ StepEnabled(d, t)
  /\ LET ns == StepOf(d, t) IN
     /\ Apply(d, t, ns)
     /\ mon' = MonFold(mon, ns.S.evs)
     /\ last' = ns.S.evs
  /\ hist' = Append(hist, t)
  /\ UNCHANGED sid

AllDone == \A t \in Threads(D(sid)) : th[t].fin

\* when everybody is finished the harness emits "end": one closing step
Finish ==
  /\ AllDone /\ ~mon.ended
  /\ mon' = MonStep(mon, [e |-> "end"])
  /\ last' = <<[e |-> "end"]>>
  /\ UNCHANGED <<sid, hw, hr, th, kf, val, hist>>

Next == (\E t \in 1..D(sid).nt : Step(t)) \/ Finish

Spec == Init /\ [][Next]_vars /\ \A t \in 1..4 : WF_vars(Step(t))

(***************************************************************************)
(* Properties checked on the model itself                                  *)
(***************************************************************************)
\* C01 on the model: some thread is unfinished and nobody can move
ModelStuck == ~AllDone /\ \A t \in Threads(D(sid)) : ~StepEnabled(D(sid), t)

\* the model's lock table and the monitor's agree (sanity of the event encoding)
TablesAgree == mon.hw = hw /\ mon.hr = hr

NoViolation == mon.viol = {}
NotStuck    == ~ModelStuck

View == <<sid, hw, hr, th, kf, val, mon>>
EvAlias == [last |-> last, hist |-> hist]
NotEnded == ~mon.ended
=============================================================================
