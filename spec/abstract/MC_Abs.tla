------------------------------- MODULE MC_Abs -------------------------------
EXTENDS AbstractOrder
\* constants for Apalache (--cinit=CInit)
CInit == NT = 4 /\ NL = 6
=============================================================================
