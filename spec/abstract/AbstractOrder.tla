--------------------------- MODULE AbstractOrder ---------------------------
(***************************************************************************)
(* The abstract argument behind C01 / C08, independent of the bounded      *)
(* families: if every thread acquires the locks it wants in ONE common     *)
(* total order (what sorting collections do with address order, and what   *)
(* C08 checks on the code) and holds nothing when it starts (total         *)
(* allocation, C03), then some unfinished thread can always move.          *)
(*                                                                         *)
(* Checked with Apalache as an INDUCTIVE invariant (all states satisfying  *)
(* IndInv, not only the reachable ones) for NT threads and NL locks:       *)
(*   apalache-mc check --init=Init    --inv=IndInv  --length=0             *)
(*   apalache-mc check --init=IndInit --inv=IndInv  --length=1             *)
(*   apalache-mc check --init=IndInit --inv=NotStuck --length=0            *)
(* and with TLC exhaustively for the same constants (AbstractOrder.cfg).   *)
(***************************************************************************)
EXTENDS Integers, FiniteSets

CONSTANTS
  \* @type: Int;
  NT,
  \* @type: Int;
  NL

Thread == 1..NT
Lock == 1..NL

VARIABLES
  \* @type: Int -> Set(Int);
  want,      \* the set of locks thread t acquires (a collection), fixed per behaviour
  \* @type: Int -> Set(Int);
  held,      \* locks currently held by t
  \* @type: Int -> Bool;
  done

vars == <<want, held, done>>

Free(l) == \A u \in Thread : l \notin held[u]
Rest(t) == want[t] \ held[t]
\* the next lock in the common order
NextLock(t) == CHOOSE l \in Rest(t) : \A k \in Rest(t) : l <= k

Init ==
  /\ want \in [Thread -> SUBSET Lock]
  /\ held = [t \in Thread |-> {}]
  /\ done = [t \in Thread |-> FALSE]

Acquire(t) ==
  /\ ~done[t] /\ Rest(t) # {}
  /\ Free(NextLock(t))
  /\ held' = [held EXCEPT ![t] = @ \cup {NextLock(t)}]
  /\ UNCHANGED <<want, done>>

\* guard dropped: everything released, in any order (atomic here)
Release(t) ==
  /\ ~done[t] /\ Rest(t) = {}
  /\ held' = [held EXCEPT ![t] = {}]
  /\ done' = [done EXCEPT ![t] = TRUE]
  /\ UNCHANGED want

Next == \E t \in Thread : Acquire(t) \/ Release(t)

TypeOK ==
  /\ want \in [Thread -> SUBSET Lock]
  /\ held \in [Thread -> SUBSET Lock]
  /\ done \in [Thread -> BOOLEAN]

\* the inductive invariant
IndInv ==
  /\ TypeOK
  /\ \A t \in Thread : held[t] \subseteq want[t]
  /\ \A t, u \in Thread : t # u => held[t] \cap held[u] = {}                         \* mutual exclusion
  /\ \A t \in Thread : \A a \in held[t] : \A b \in want[t] : b < a => b \in held[t]   \* holds a lower-closed part
  /\ \A t \in Thread : done[t] => held[t] = {}

IndInit == IndInv

Enabled(t) == ~done[t] /\ (Rest(t) = {} \/ Free(NextLock(t)))

\* C01 at the abstract level: no state in which every unfinished thread waits
NotStuck == (\E t \in Thread : ~done[t]) => \E t \in Thread : Enabled(t)
=============================================================================
