CONSTANTS
  NT = 3
  NL = 4
INIT Init
NEXT Next
INVARIANT IndInv
INVARIANT NotStuck
CHECK_DEADLOCK FALSE
