CONSTANTS
  ScenTab <- TVScenTab
  KnownSigs = {}
  TrackHist = FALSE
INIT TInit
NEXT TNext
INVARIANT Report
POSTCONDITION Consumed
CHECK_DEADLOCK FALSE
