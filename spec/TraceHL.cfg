CONSTANTS
  ScenTab <- TVScenTab
INIT TInit
NEXT TNext
INVARIANT Report
POSTCONDITION Consumed
CHECK_DEADLOCK FALSE
