CONSTANTS
  ScenTab <- TVScenTab
  KnownSigs = {}
INIT TInit
NEXT TNext
INVARIANT Report
POSTCONDITION Consumed
CHECK_DEADLOCK FALSE
