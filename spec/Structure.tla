----------------------------- MODULE Structure -----------------------------
(***************************************************************************)
(* Scenario language and structural oracle functions.                      *)
(*                                                                         *)
(* A raw scenario describes an arena of locks, a list of collections built *)
(* over it, and one program per thread.  Everything the other modules need *)
(* about the *shape* of a collection (which leaf locks it reaches, in      *)
(* which order its own raw operations visit them, in which order a guard   *)
(* releases them) is computed here, from the scenario alone, independently *)
(* of happylock's get_ptrs.                                                *)
(*                                                                         *)
(* arena : Seq of slots; the slot index IS the address rank.               *)
(*         slot == [k |-> "M" | "R" | "O", ms |-> Seq(slot index)]         *)
(*         "M" Mutex leaf, "R" RwLock leaf, "O" OwnedLockCollection over   *)
(*         the private leaves ms (in *listing* order, which need not be    *)
(*         address order).                                                 *)
(* colls : Seq of [kind, ctor, items]; items : Seq of [s, c] where exactly *)
(*         one of s (slot index) / c (index of an earlier collection) is   *)
(*         non-zero.                                                       *)
(*         kind \in {"single","owned","boxed","ref","retry","pois"}        *)
(*         ("single"/"owned"/"pois" have exactly one item).                *)
(* progs : Seq (one per thread) of Seq of program items.                   *)
(* policy: "RP" | "WP"  (RwLock wake policy of the raw lock environment).  *)
(* faults: [k |-> "none"] | [k |-> "oneshot", at |-> n]                    *)
(*         | [k |-> "persist", l |-> leaf, ops |-> set of op kinds]        *)
(***************************************************************************)
EXTENDS Naturals, Integers, Sequences, FiniteSets, TLC

Max(a, b) == IF a >= b THEN a ELSE b
Min(a, b) == IF a <= b THEN a ELSE b

RECURSIVE Flatten(_)
Flatten(ss) == IF ss = <<>> THEN <<>> ELSE Head(ss) \o Flatten(Tail(ss))

SeqRange(s) == {s[i] : i \in 1..Len(s)}

\* stable insertion sort of a sequence of entries [r, ls, u] by address rank r
\* (built back to front, inserting before equal-or-larger elements)
RECURSIVE InsertStable(_, _)
InsertStable(e, s) ==
  IF s = <<>> THEN <<e>>
  ELSE IF e.r <= Head(s).r THEN <<e>> \o s
  ELSE <<Head(s)>> \o InsertStable(e, Tail(s))
RECURSIVE SortStable(_)
SortStable(s) == IF s = <<>> THEN <<>> ELSE InsertStable(Head(s), SortStable(Tail(s)))

(***************************************************************************)
(* Entries: an entry is one `&dyn RawLock` of a lock list:                 *)
(*   [r |-> address rank, ls |-> leaves it locks, in its own order,        *)
(*    u |-> TRUE iff it is an owned collection (a "unit")]                 *)
(***************************************************************************)
SlotEntry(sc, s) ==
  IF sc.arena[s].k = "O" THEN [r |-> s, ls |-> sc.arena[s].ms, u |-> TRUE]
  ELSE [r |-> s, ls |-> <<s>>, u |-> FALSE]

RECURSIVE Exposed(_, _)
\* what collection c pushes into an enclosing collection's lock list (get_ptrs)
ItemExposed(sc, it) == IF it.c # 0 THEN Exposed(sc, it.c) ELSE <<SlotEntry(sc, it.s)>>
Exposed(sc, c) ==
  LET co == sc.colls[c]
      cat == Flatten([i \in 1..Len(co.items) |-> ItemExposed(sc, co.items[i])])
  IN  IF co.kind \in {"boxed", "ref"} THEN SortStable(cat) ELSE cat

\* the lock list that c's *own* raw operations iterate
ItemEntries(sc, it) ==
  IF it.c # 0 THEN Exposed(sc, it.c)      \* placeholder, overridden below for colls
  ELSE IF sc.arena[it.s].k = "O"
       THEN [i \in 1..Len(sc.arena[it.s].ms) |->
               [r |-> sc.arena[it.s].ms[i], ls |-> <<sc.arena[it.s].ms[i]>>, u |-> FALSE]]
       ELSE <<SlotEntry(sc, it.s)>>

RECURSIVE Entries(_, _)
Entries(sc, c) ==
  LET co == sc.colls[c] IN
  IF co.kind \in {"single", "owned", "pois"}
  THEN LET it == co.items[1] IN IF it.c # 0 THEN Entries(sc, it.c) ELSE ItemEntries(sc, it)
  ELSE Exposed(sc, c)

\* guard drop order: declared structure, depth first
RECURSIVE Decl(_, _)
ItemDecl(sc, it) == IF it.c # 0 THEN Decl(sc, it.c)
                    ELSE IF sc.arena[it.s].k = "O" THEN sc.arena[it.s].ms ELSE <<it.s>>
Decl(sc, c) == LET co == sc.colls[c] IN
               Flatten([i \in 1..Len(co.items) |-> ItemDecl(sc, co.items[i])])

\* the leaf at a position path of the declared structure
\* (a poisonable / single / owned wrapper adds no path element)
RECURSIVE LeafAtC(_, _, _)
LeafAtItem(sc, it, pos) ==
  IF it.c # 0 THEN LeafAtC(sc, it.c, pos)
  ELSE IF sc.arena[it.s].k = "O"
       THEN IF pos # <<>> /\ pos[1] \in 1..Len(sc.arena[it.s].ms) THEN sc.arena[it.s].ms[pos[1]] ELSE 0
       ELSE it.s
LeafAtC(sc, c, pos) ==
  LET co == sc.colls[c] IN
  IF co.kind \in {"single", "owned", "pois"} THEN LeafAtItem(sc, co.items[1], pos)
  ELSE IF pos # <<>> /\ pos[1] \in 1..Len(co.items)
       THEN LeafAtItem(sc, co.items[pos[1]], Tail(pos)) ELSE 0

\* all position paths of a collection (for generating accesses)
RECURSIVE PathsC(_, _)
PathsItem(sc, it) ==
  IF it.c # 0 THEN PathsC(sc, it.c)
  ELSE IF sc.arena[it.s].k = "O" THEN {<<i>> : i \in 1..Len(sc.arena[it.s].ms)} ELSE {<<>>}
PathsC(sc, c) ==
  LET co == sc.colls[c] IN
  IF co.kind \in {"single", "owned", "pois"} THEN PathsItem(sc, co.items[1])
  ELSE UNION {{<<i>> \o p : p \in PathsItem(sc, co.items[i])} : i \in 1..Len(co.items)}

\* duplicate oracle: some leaf (or unit) reachable twice
HasDupSeq(s) == \E i, j \in 1..Len(s) : i < j /\ s[i] = s[j]
RanksOf(es) == [i \in 1..Len(es) |-> es[i].r]

\* the poisonable wrappers that cover collection c's guard (outermost first):
\* c itself if it is "pois", then those of its items, recursively
RECURSIVE PoisIn(_, _)
PoisIn(sc, c) ==
  LET co == sc.colls[c]
      sub == UNION {IF co.items[i].c # 0 THEN PoisIn(sc, co.items[i].c) ELSE {} : i \in 1..Len(co.items)}
  IN IF co.kind = "pois" THEN {c} \cup sub ELSE sub

\* unit (owned collection slot) a leaf belongs to, 0 if none
UnitOf(sc, l) == IF \E s \in 1..Len(sc.arena) : sc.arena[s].k = "O" /\ l \in SeqRange(sc.arena[s].ms)
                 THEN CHOOSE s \in 1..Len(sc.arena) : sc.arena[s].k = "O" /\ l \in SeqRange(sc.arena[s].ms)
                 ELSE 0

\* guard drop plan: declared structure, depth first, as segments [p, ls]:
\* p # 0 marks the PoisonRef of poisonable collection p (dropped BEFORE the
\* guards it wraps), ls are leaves released in order
RECURSIVE GPlanC(_, _)
GPlanItem(sc, it) == IF it.c # 0 THEN GPlanC(sc, it.c)
                     ELSE <<[p |-> 0, ls |-> IF sc.arena[it.s].k = "O" THEN sc.arena[it.s].ms ELSE <<it.s>>]>>
GPlanC(sc, c) ==
  LET co == sc.colls[c]
      sub == Flatten([i \in 1..Len(co.items) |-> GPlanItem(sc, co.items[i])])
  IN IF co.kind = "pois" THEN <<[p |-> c, ls |-> <<>>]>> \o sub ELSE sub

\* leaves visited by `{:?}` formatting of a collection (declared order; a boxed
\* collection prints only a pointer)
RECURSIVE DebugC(_, _)
DebugItem(sc, it) == IF it.c # 0 THEN DebugC(sc, it.c)
                     ELSE IF sc.arena[it.s].k = "O" THEN sc.arena[it.s].ms ELSE <<it.s>>
DebugC(sc, c) ==
  LET co == sc.colls[c] IN
  IF co.kind = "boxed" THEN <<>>
  ELSE Flatten([i \in 1..Len(co.items) |-> DebugItem(sc, co.items[i])])

\* acquisition algorithm family of a collection's own raw operations
RECURSIVE AlgKind(_, _)
AlgKind(sc, c) ==
  LET co == sc.colls[c] IN
  IF co.kind = "retry" THEN "retry"
  ELSE IF co.kind \in {"single", "owned", "pois"} /\ co.items[1].c # 0 THEN AlgKind(sc, co.items[1].c)
  ELSE "ord"

(***************************************************************************)
(* Derived scenario: everything precomputed once per scenario.             *)
(***************************************************************************)
Derive(sc) ==
  [ raw    |-> sc,
    nl     |-> Len(sc.arena),
    lk     |-> [s \in 1..Len(sc.arena) |-> sc.arena[s].k],
    unit   |-> [s \in 1..Len(sc.arena) |-> UnitOf(sc, s)],
    nt     |-> Len(sc.progs),
    nc     |-> Len(sc.colls),
    C      |-> [c \in 1..Len(sc.colls) |->
                 LET es == Entries(sc, c)
                     dl == Decl(sc, c) IN
                 [ kind  |-> sc.colls[c].kind,
                   ctor  |-> sc.colls[c].ctor,
                   alg   |-> AlgKind(sc, c),
                   E     |-> [i \in 1..Len(es) |-> es[i].ls],
                   flat  |-> Flatten([i \in 1..Len(es) |-> es[i].ls]),
                   decl  |-> dl,
                   lv    |-> SeqRange(dl),
                   dup   |-> HasDupSeq(RanksOf(Exposed(sc, c))),
                   pois  |-> PoisIn(sc, c),
                   gplan |-> GPlanC(sc, c),
                   pseq  |-> LET g == GPlanC(sc, c) IN
                             [i \in 1..Len(SelectSeq(g, LAMBDA x : x.p # 0)) |-> SelectSeq(g, LAMBDA x : x.p # 0)[i].p],
                   dbg   |-> DebugC(sc, c),
                   inner |-> IF sc.colls[c].kind \in {"single", "owned", "pois"}
                             THEN (IF sc.colls[c].items[1].c # 0
                                   THEN sc.colls[sc.colls[c].items[1].c].kind
                                   ELSE IF sc.arena[sc.colls[c].items[1].s].k = "O" THEN "owned" ELSE "leaf")
                             ELSE sc.colls[c].kind ]],
    hasretry |-> \E c \in 1..Len(sc.colls) : sc.colls[c].kind = "retry",
    progs  |-> sc.progs,
    policy |-> sc.policy,
    faults |-> sc.faults ]

=============================================================================
