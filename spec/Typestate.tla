----------------------------- MODULE Typestate -----------------------------
(***************************************************************************)
(* C14 / C15: the one-key discipline and the confinement of protected data *)
(* as a TYPESTATE protocol of a straight-line client program.              *)
(*                                                                         *)
(* State of the program under construction:                                *)
(*   key  : "own"  the variable `key` holds the thread's key               *)
(*          "gone" it was moved (into a guard, a scoped call, ...)         *)
(*   g    : "none" | "live" | "dead"   the guard variable `g`              *)
(*   gx   : which lock / collection `g` guards ("" if none)                *)
(* One action per statement; an action's enabling condition is the typing  *)
(* rule.  TLC enumerates every sequence of enabled statements (a program   *)
(* that MUST COMPILE) and, in every reachable state, every applicable      *)
(* "never" statement (a program that MUST BE REJECTED AT THAT LINE; its    *)
(* twin is the same program without the last line).  The renderer          *)
(* (gen/typecorpus.py) turns each sequence into Rust source; rustc against the  *)
(* current tree's rlib is the implementation under test.                   *)
(***************************************************************************)
EXTENDS Naturals, Sequences, TLC, Json

CONSTANTS MaxLen,     \* maximal number of legal statements in a program
          Mode        \* "full": every sequence of legal statements (must-compile programs only)
                      \* "abs" : one program per abstract state (VIEW AbsView) plus every never-extension of it

VARIABLES key, g, gx, prog

vars == <<key, g, gx, prog>>

\* lockable objects declared by the program prelude (gen/typecorpus.py):
\*   m1, m2 : Mutex<i32>        rw : RwLock<i32>
\*   ct : LockCollection<(Mutex, Mutex)> (owned tuple)   cv : LockCollection<Vec<&Mutex>> (try_new over references)
\*   rt : RetryingLockCollection<[Mutex; 2]>   ow : OwnedLockCollection<(Mutex, Mutex)>
\*   rf : RefLockCollection over a tuple       pm : Poisonable<Mutex>
Guardables == {"m1", "rw_w", "rw_r", "ct", "cv", "rt", "ow", "rf", "pm"}
Scopables  == {"m1", "rw_w", "rw_r", "ct", "cv", "rt", "ow", "rf", "pm"}

Stmt(k, x) == [k |-> k, x |-> x]

Init == key = "own" /\ g = "none" /\ gx = "" /\ prog = <<>>

Room == Len(prog) < MaxLen

\* ------------------------------------------------------------- legal statements
Lock(x) ==      \* let g = X.lock(key);
  /\ Room /\ key = "own" /\ g # "live"
  /\ key' = "gone" /\ g' = "live" /\ gx' = x /\ prog' = Append(prog, Stmt("lock", x))

TryLock(x) ==   \* let g = match X.try_lock(key) { Ok(g) => g, Err(_k) => return };
  /\ Room /\ key = "own" /\ g # "live"
  /\ key' = "gone" /\ g' = "live" /\ gx' = x /\ prog' = Append(prog, Stmt("try_lock", x))

Unlock ==       \* let mut key = <Type>::unlock(g);
  /\ Room /\ g = "live"
  /\ key' = "own" /\ g' = "dead" /\ gx' = gx /\ prog' = Append(prog, Stmt("unlock", gx))

DropG ==        \* drop(g);
  /\ Room /\ g = "live"
  /\ g' = "dead" /\ UNCHANGED <<key, gx>> /\ prog' = Append(prog, Stmt("dropg", gx))

UseG ==         \* let _v = <read through g>;
  /\ Room /\ g = "live"
  /\ UNCHANGED <<key, g, gx>> /\ prog' = Append(prog, Stmt("useg", gx))

GetKey ==       \* let mut key = ThreadKey::get().unwrap();
  /\ Room /\ key = "gone" /\ g # "live"
  /\ key' = "own" /\ UNCHANGED <<g, gx>> /\ prog' = Append(prog, Stmt("getkey", ""))

ScopedLent(x) ==   \* X.scoped_lock(&mut key, |d| { use(d) });
  /\ Room /\ key = "own"
  /\ UNCHANGED <<key, g, gx>> /\ prog' = Append(prog, Stmt("scoped_lent", x))

ScopedOwned(x) ==  \* X.scoped_lock(key, |d| { use(d) });
  /\ Room /\ key = "own"
  /\ key' = "gone" /\ UNCHANGED <<g, gx>> /\ prog' = Append(prog, Stmt("scoped_owned", x))

Legal ==
  \/ \E x \in Guardables : Lock(x) \/ TryLock(x)
  \/ Unlock \/ DropG \/ UseG \/ GetKey
  \/ \E x \in Scopables : ScopedLent(x) \/ ScopedOwned(x)

Next == Legal

\* ------------------------------------------------------------- never statements
\* [k, x] of the offending last line, applicable in the current state; every one
\* of them must be rejected by the compiler (class = the escape route it stands for)
TupleShaped(x) == x \in {"ct", "ow", "rf"}
VecShaped(x)   == x \in {"cv"}

Never ==
  \* --- C14: the key
  (IF key = "gone" THEN {Stmt("n_lock_moved_key", "m2")} ELSE {})                         \* use of a moved key
  \cup (IF key = "own" THEN
          {Stmt("n_nested_scoped_same_key", x) : x \in {"m1", "ct"}}                      \* nested scoped call with the lent key
          \cup {Stmt("n_lock_in_scoped", x) : x \in {"m1", "ct"}}                         \* guard API inside a scoped call
          \cup {Stmt("n_spawn_key", ""), Stmt("n_scope_spawn_key", ""),                   \* move the key to another thread
                Stmt("n_share_key_lock", ""),                                             \* lock on another thread through a shared key
                Stmt("n_clone_key", ""), Stmt("n_copy_key", ""),                          \* duplicate the key
                Stmt("n_lock_borrowed_key", "m1"), Stmt("n_lock_borrowed_key", "ct"),     \* guard API with a borrowed key
                Stmt("n_lock_shared_ref_key", "m1"),
                Stmt("n_scoped_shared_ref_key", "m1"), Stmt("n_scoped_shared_ref_key", "ct"),   \* scoped call with &key
                Stmt("n_lock_borrowed_key", "rw_r"), Stmt("n_lock_borrowed_key", "rw_w")}
        ELSE {})
  \cup (IF g = "live" THEN
          {Stmt("n_guard_field", gx),                                                     \* private key field of the guard
           Stmt("n_hold_field", gx), Stmt("n_destructure_guard", gx),                     \* private hold field / destructuring
           Stmt("n_scope_spawn_guard", gx),                                               \* send a key-holding guard
           Stmt("n_ref_outlives_guard", gx),                                              \* reference outliving the hold (C15)
           Stmt("n_guard_map", gx)}                                                       \* std / parking_lot style `Guard::map` handing the holds to a closure
          \cup (IF gx = "rw_r" THEN {Stmt("n_write_through_read_guard", gx)} ELSE {})      \* C15: a shared hold gives no &mut
          \cup (IF TupleShaped(gx) THEN {Stmt("n_move_hold_out", gx), Stmt("n_take_holds", gx)} ELSE {})
          \cup (IF VecShaped(gx) THEN {Stmt("n_take_holds", gx)} ELSE {})                 \* D6: currently accepted
        ELSE {})
  \* --- statements that need no particular state: tried once, in the initial state
  \cup (IF prog = <<>> THEN
          {Stmt("n_forge_key", ""), Stmt("n_impl_keyable", ""), Stmt("n_impl_sealed", ""),
           Stmt("n_key_default", ""), Stmt("n_key_from_thread", ""), Stmt("n_guard_from_thread", ""),
           Stmt("n_key_in_static", ""), Stmt("n_write_in_scoped_read", "rw_r"), Stmt("n_write_in_scoped_read", "ow"),
           Stmt("n_guard_outlives_lock", "m1"), Stmt("n_guard_outlives_lock", "ct"),
           Stmt("n_new_with_refs", "boxed"), Stmt("n_new_with_refs", "retry"), Stmt("n_new_with_refs", "owned"),
           Stmt("n_new_ref_with_refs", "boxed"), Stmt("n_ref_new_with_refs", "ref"),
           Stmt("n_owned_child", ""), Stmt("n_owned_as_ref", ""), Stmt("n_owned_iter", ""),
           Stmt("n_unsafe_new_unchecked", "boxed"), Stmt("n_unsafe_new_unchecked", "ref"),
           Stmt("n_unsafe_new_unchecked", "retry"),
           Stmt("n_unsafe_raw", ""), Stmt("n_unsafe_guard", ""), Stmt("n_unsafe_data_mut", ""),
           Stmt("n_unsafe_read_guard", ""), Stmt("n_unsafe_raw_lock", "")}
          \cup {Stmt("n_scoped_escape", x) : x \in Scopables}                            \* D1: reference escaping a scoped closure
          \cup {Stmt("n_scoped_try_escape", x) : x \in Scopables}
          \cup {Stmt("n_clone_hold", x) : x \in {"mutexref", "readref", "writeref"}}    \* duplicate a hold out of a collection guard
          \cup {Stmt("n_clone_guard", x) : x \in {"m1", "rw_r", "rw_w", "ct", "pm"}}       \* duplicate a key-holding guard
        ELSE {})

\* ------------------------------------------------------------- emission
\* one line per program: the legal prefix (must compile) and each never-extension
Emit ==
  /\ PrintT("PROG " \o ToJson([stmts |-> prog, expect |-> "ok", at |-> 0, class |-> ""]))
  /\ Mode = "abs" => \A n \in Never :
       PrintT("PROG " \o ToJson([stmts |-> Append(prog, n), expect |-> "reject", at |-> Len(prog) + 1, class |-> n.k]))

\* printed from a state constraint so that every distinct reachable program prefix is emitted once
Emitted == Emit
AbsView == <<key, g, gx>>

(***************************************************************************)
(* C15: thread-safety table.  The oracle is the standard library's rule    *)
(* for the corresponding std type; TLC enumerates container x payload x    *)
(* operation and prints the expected verdict.                              *)
(***************************************************************************)
Payloads == {"i32", "cell", "rc"}          \* Send+Sync | Send+!Sync | !Send+!Sync
PSend(p) == p # "rc"
PSync(p) == p = "i32"
Containers == {"mutex", "rwlock", "boxed_mutex", "boxed_rwlock", "retry_mutex", "retry_rwlock",
               "owned_mutex", "owned_rwlock", "ref_mutex", "ref_rwlock", "pois_mutex", "pois_rwlock",
               "mutex_guard", "rwlock_read_guard", "rwlock_write_guard", "coll_guard"}
IsRw(c) == c \in {"rwlock", "boxed_rwlock", "retry_rwlock", "owned_rwlock", "ref_rwlock", "pois_rwlock"}
IsGuard(c) == c \in {"mutex_guard", "rwlock_read_guard", "rwlock_write_guard", "coll_guard"}
\* std: Mutex<T>: Send <= T: Send, Sync <= T: Send.   RwLock<T>: Send <= T: Send, Sync <= T: Send + Sync.
\* a RefLockCollection holds &L, so sending it needs L: Sync (std: &T: Send <= T: Sync).
\* guards hold the thread key: never Send; shared (&guard) only if the payload is Sync.
Allowed(c, p, op) ==
  IF IsGuard(c) THEN (op = "sync" /\ PSync(p))
  ELSE IF c \in {"ref_mutex", "ref_rwlock"} /\ op = "send"
       THEN (IF IsRw(c) THEN PSend(p) /\ PSync(p) ELSE PSend(p))
  ELSE IF op = "send" THEN PSend(p)
  ELSE IF IsRw(c) THEN PSend(p) /\ PSync(p) ELSE PSend(p)

ASSUME \A c \in Containers, p \in Payloads, op \in {"send", "sync"} :
         PrintT("TABLE " \o ToJson([c |-> c, p |-> p, op |-> op,
                                    expect |-> IF Allowed(c, p, op) THEN "ok" ELSE "reject"]))
=============================================================================
