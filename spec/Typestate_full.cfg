CONSTANTS
 MaxLen = 2
 Mode = "full"
INIT Init
NEXT Next
INVARIANT Emitted
CHECK_DEADLOCK FALSE
