CONSTANTS
 MaxLen = 3
 Mode = "abs"
INIT Init
NEXT Next
VIEW AbsView
INVARIANT Emitted
CHECK_DEADLOCK FALSE
