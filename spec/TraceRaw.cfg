INIT RInit
NEXT RNext
INVARIANT Report
POSTCONDITION Consumed
CHECK_DEADLOCK FALSE
