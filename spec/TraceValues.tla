----------------------------- MODULE TraceValues -----------------------------
(***************************************************************************)
(* Validation of the value traces recorded by `hlverif values` against     *)
(* Values.tla: every `vret` must be the next expected one, every identity  *)
(* must be dropped exactly once by `vend`.                                 *)
(***************************************************************************)
EXTENDS Values, Json, IOUtils

Rec0 == ndJsonDeserialize(IOEnv.TRACE)
Rec == Rec0

VARIABLES ti, sc, nret, drops, found, execs, xi

tvvars == <<ti, sc, nret, drops, found, execs, xi>>

NoScen == [kind |-> "", shape |-> "", mem |-> "", n |-> 0, ctor |-> "", ops |-> <<>>, dtor |-> ""]
Sig(s, sym) == s.kind \o "/" \o s.shape \o "/" \o s.mem \o "/" \o s.ctor \o "/" \o s.dtor \o "/" \o sym
FlagP(p, sym) == found' = found \cup {[p |-> p, s |-> Sig(sc, sym), x |-> xi, ln |-> ti]}
Flag(sym) == FlagP("C16", sym)

TVInit == ti = 1 /\ sc = NoScen /\ nret = 0 /\ drops = <<>> /\ found = {} /\ execs = 0 /\ xi = 0

TVNext ==
  /\ ti <= Len(Rec)
  /\ ti' = ti + 1
  /\ LET ev == Rec[ti] IN
     CASE ev.e = "vhdr" ->
            /\ sc' = ev.scen /\ nret' = 0 /\ xi' = xi + 1 /\ execs' = execs + 1
            /\ drops' = [i \in AllIds(ev.scen) |-> 0]
            /\ UNCHANGED found
       [] ev.e = "vret" ->
            LET er == ExpectedRets(sc) IN
            /\ nret' = nret + 1
            /\ IF nret + 1 > Len(er) THEN Flag("unexpected-value-returned")
               ELSE IF er[nret + 1] # [path |-> ev.path, pos |-> ev.pos, id |-> ev.id, val |-> ev.val]
               THEN Flag("wrong-value-or-position")
               ELSE UNCHANGED found
            /\ UNCHANGED <<sc, drops, execs, xi>>
       [] ev.e = "vdrop" ->
            /\ drops' = IF ev.id \in DOMAIN drops THEN [drops EXCEPT ![ev.id] = @ + 1] ELSE drops
            /\ IF ev.id \notin DOMAIN drops THEN Flag("unknown-value-dropped")
               ELSE IF drops[ev.id] >= 1 THEN Flag("value-dropped-twice")
               ELSE UNCHANGED found
            /\ UNCHANGED <<sc, nret, execs, xi>>
       [] ev.e = "vheld" ->    \* hold state of the members of a tuple / array / Vec / Box<[T]> shaped collection
            /\ IF ev.when \in {"guard", "rguard"} /\ ev.locked # ev.total THEN FlagP("C04", "member-not-locked-under-guard")
               ELSE IF ev.when = "after" /\ ev.locked # 0 THEN FlagP("C05", "member-locked-after-guard-drop")
               ELSE UNCHANGED found
            /\ UNCHANGED <<sc, nret, drops, execs, xi>>
       [] ev.e = "vctor" ->
            /\ IF sc.ctor = "zst" THEN (IF ev.some THEN UNCHANGED found ELSE FlagP("C07", "duplicate-free-input-rejected"))
               ELSE IF ev.some THEN Flag("duplicate-accepted") ELSE UNCHANGED found
            /\ UNCHANGED <<sc, nret, drops, execs, xi>>
       [] ev.e = "vpanic" ->
            /\ Flag("panicked") /\ UNCHANGED <<sc, nret, drops, execs, xi>>
       [] ev.e = "vend" ->
            /\ IF \E i \in DOMAIN drops : drops[i] = 0 THEN Flag("value-never-dropped")
               ELSE IF nret # Len(ExpectedRets(sc)) THEN Flag("value-not-returned")
               ELSE UNCHANGED found
            /\ UNCHANGED <<sc, nret, drops, execs, xi>>

Report ==
  ti = Len(Rec) + 1 =>
    /\ \A v \in found : PrintT("VIOL " \o ToJson(v))
    /\ PrintT(<<"HITS", "C16", Len(Rec), execs>>)
    /\ PrintT(<<"STATS", Len(Rec), execs, execs>>)

Consumed == TLCGet("stats").diameter = Len(Rec) + 1
=============================================================================
