-------------------------------- MODULE MC --------------------------------
(***************************************************************************)
(* Bounded scenario families for model checking ("for all programs").      *)
(* The constant Family selects one; TLC enumerates its scenarios as        *)
(* initial states and explores every interleaving of each.                 *)
(*                                                                         *)
(* Shared arena                                                            *)
(*   slot 1,2 : RwLock   slot 3 : Mutex                                    *)
(*   slot 4   : OwnedLockCollection over the private RwLocks 6,5 (listing  *)
(*              order 6,5 differs from address order)                      *)
(***************************************************************************)
EXTENDS HappyLock, Families, Json

CONSTANTS Family,     \* "conc" | "seq"
          PartK, PartN, \* this TLC process explores scenarios i with i % PartN = PartK
          \* ---- family "conc": NT threads, one call each
          Kinds,      \* collection kinds of thread 1's call      \* subset of {"single","owned","boxed","ref","retry"}
          ApisA,      \* api set of thread 1
          UnivA,      \* top-level slots the call of thread 1 may list
          MinLenA, MaxLenA,
          CallsB,     \* calls of the other threads: set of <<kind, slots, api>>
          Policies,   \* subset of {"RP","WP"}
          NT,         \* number of threads (2 or 3)
          Keys,       \* key styles for scoped calls, subset of {"lent","owned"}
          ConcBodies, \* bodies of thread 1's call: subset of {"acc","none","panic","dbg"}
          Rounds,     \* every thread performs its call this many times (1 or 2): re-acquisition races
          ConcCtors,  \* constructors of thread 1's collection: subset of {"try_new","new","from","from_iter","unchecked"}
          \* ---- family "seq": thread 1 runs every sequence of 1..SeqMaxLen items, thread 2 is a holder
          SeqColls,   \* collections (indices into SeqCollTab) the main thread calls
          SeqApis, SeqRels, SeqKeys, SeqBodies,
          SeqKeyOps,  \* subset of {"probe","getkey","dropkey","forgetkey"}
          SeqTopOps,  \* set of <<name, coll>> : top-level non-acquiring operations
          SeqDbgColls,\* collections formatted with {:?} by "dbg" bodies
          SeqMaxLen,
          SeqHolders, \* set of <<api, coll>> the second thread holds (<<"none", 0>> : no holder)
          \* ---- family "fault": one call under a one-shot raw-lock fault at each operation index, then probes
          FltColls, FltApis, FltKeys, FltRels, FltHolders, FltMaxAt,
          FltPersist,    \* {} : one-shot faults at index 1..FltMaxAt;  otherwise a set of <<leaf, op>> :
                         \* the persistent "evil lock" profiles of tests/evil_*.rs (every `op` of that leaf panics)
          FltTryProbes,  \* collections probed with try_lock after the faulted call
          FltLockProbes, \* collections probed with a blocking lock after that
          \* ---- family "ctor": checked constructors over every member list (with repetition)
          CtorKinds,     \* subset of {"boxed","ref","retry"}
          CtorUniv,      \* members: subset of 1..8 (indices into CtorMembers)
          CtorMaxLen

Arena == <<Leaf("R"), Leaf("R"), Leaf("M"), Unit(<<6, 5>>), Leaf("R"), Leaf("R")>>

SlotLists(kind, U, maxlen) ==
  IF kind = "single" THEN {<<s>> : s \in {x \in U : Arena[x].k # "O"}}
  ELSE IF kind = "owned" THEN {<<s>> : s \in {x \in U : Arena[x].k = "O"}}
  ELSE Arrangements(U, 0, maxlen)

CallSpecsA ==
  {cs \in [kind : Kinds, slots : UNION {SlotLists(k, UnivA, MaxLenA) : k \in Kinds}, api : ApisA, key : Keys] :
     /\ cs.slots \in SlotLists(cs.kind, UnivA, MaxLenA)
     /\ cs.kind \in {"single", "owned"} \/ Len(cs.slots) >= MinLenA
     /\ ApiMode(cs.api) = "r" => AllRw(Arena, cs.slots)
     /\ ~ApiScoped(cs.api) => cs.key = "owned"}
CallSpecsB == {[kind |-> b[1], slots |-> b[2], api |-> b[3], key |-> "owned"] : b \in CallsB}

FirstPath(sc, c) == LET P == PathsC(sc, c) IN CHOOSE p \in P : \A q \in P : Len(p) <= Len(q)

\* the body of a call: b \in {"none","acc","panic","dbg"}; dbg formats collection dc inside the critical section
MkBody(sc, c, api, b, dc) ==
  CASE b = "none"  -> <<>>
    [] b = "acc"   -> IF PathsC(sc, c) = {} THEN <<>> ELSE <<Acc(FirstPath(sc, c), ApiMode(api))>>
    [] b = "panic" -> (IF PathsC(sc, c) = {} THEN <<>> ELSE <<Acc(FirstPath(sc, c), ApiMode(api))>>)
                      \o <<[o |-> "panic", pos |-> <<>>, m |-> "", name |-> "", c |-> 0]>>
    [] b = "dbg"   -> <<[o |-> "op", pos |-> <<>>, m |-> "", name |-> "debug", c |-> dc]>>
    [] b = "access" -> <<[o |-> "op", pos |-> <<>>, m |-> "", name |-> "access", c |-> dc]>>
    [] b = "dupcheck" -> <<[o |-> "op", pos |-> <<>>, m |-> "", name |-> "dupcheck", c |-> dc]>>
    [] b = "probe" -> <<[o |-> "probe", pos |-> <<>>, m |-> "", name |-> "", c |-> 0]>>   \* ThreadKey::get() while the call has the key
    [] b = "clearpanic" ->   \* clear_poison() of the poisonable being held, then panic with the guard / closure still live
         <<[o |-> "op", pos |-> <<>>, m |-> "", name |-> "clear_poison", c |-> c],
           [o |-> "panic", pos |-> <<>>, m |-> "", name |-> "", c |-> 0]>>

\* thread 1's collection is built by constructor ct (arrangements are duplicate-free, so the unchecked
\* constructors are legal); the others by try_new, so that differently constructed collections meet
CtorFor(kind, ct) == IF kind = "ref" /\ ct = "from_iter" THEN "from" ELSE ct
MkScen(css, pol, b1, ct) ==
  LET colls == [i \in 1..Len(css) |-> MkColl(css[i].kind, IF i = 1 THEN CtorFor(css[i].kind, ct) ELSE "try_new", css[i].slots)]
      sc0   == [arena |-> Arena, colls |-> colls, progs |-> <<>>, policy |-> pol, faults |-> NoFaults]
      call(i) == Call(css[i].api, i, css[i].key, IF ApiScoped(css[i].api) THEN "scope" ELSE "drop",
                      MkBody(sc0, i, css[i].api, IF i = 1 THEN b1 ELSE "acc", i))
  IN [sc0 EXCEPT !.progs = [i \in 1..Len(css) |-> [r \in 1..Rounds |-> call(i)]]]

Combos == IF NT = 2 THEN {<<a, b>> : a \in CallSpecsA, b \in CallSpecsB}
          ELSE IF NT = 3 THEN {<<a, b, c>> : a \in CallSpecsA, b \in CallSpecsB, c \in CallSpecsB}
          ELSE {<<a, b, c, e>> : a \in CallSpecsA, b \in CallSpecsB, c \in CallSpecsB, e \in CallSpecsB}

ConcScens == {MkScen(cb, pol, b, ct) : cb \in Combos, pol \in Policies, b \in ConcBodies, ct \in ConcCtors}

(***************************************************************************)
(* Family "seq": a fixed menu of collections over the shared arena; the    *)
(* main thread runs every sequence of 1..SeqMaxLen items of the selected   *)
(* vocabulary; an optional second thread holds a collection meanwhile.     *)
(***************************************************************************)
CollItem(c) == [s |-> 0, c |-> c]
SeqCollTab == <<
  MkColl("single", "new", <<1>>),                                      \*  1  RwLock
  MkColl("single", "new", <<3>>),                                      \*  2  Mutex
  MkColl("boxed", "try_new", <<2, 1>>),                                \*  3
  MkColl("retry", "try_new", <<1, 4>>),                                \*  4  retry over a leaf and an owned unit
  MkColl("ref", "try_new", <<2, 1>>),                                  \*  5
  MkColl("owned", "new", <<4>>),                                       \*  6
  [kind |-> "pois", ctor |-> "new", items |-> <<CollItem(3)>>],        \*  7  Poisonable<boxed>
  MkColl("pois", "new", <<1>>),                                        \*  8  Poisonable<RwLock>
  [kind |-> "boxed", ctor |-> "try_new", items |-> <<CollItem(8), [s |-> 2, c |-> 0]>>],  \* 9 boxed[pois(1), 2]
  [kind |-> "pois", ctor |-> "new", items |-> <<CollItem(4)>>],        \* 10  Poisonable<retry>
  [kind |-> "pois", ctor |-> "new", items |-> <<CollItem(8)>>],        \* 11  Poisonable<Poisonable<RwLock>>
  [kind |-> "retry", ctor |-> "try_new", items |-> <<CollItem(8), [s |-> 2, c |-> 0]>>],  \* 12 retry[pois(1), 2]
  MkColl("boxed", "try_new", <<3, 2>>),                                \* 13  boxed over a Mutex and an RwLock
  [kind |-> "boxed", ctor |-> "try_new", items |-> <<CollItem(4), [s |-> 2, c |-> 0]>>],  \* 14 boxed[retry[1,unit], 2]
  [kind |-> "ref", ctor |-> "try_new", items |-> <<CollItem(8), [s |-> 2, c |-> 0]>>],    \* 15 ref[pois(1), 2]
  [kind |-> "pois", ctor |-> "new", items |-> <<CollItem(9)>>],                           \* 16 Poisonable<boxed[pois(1), 2]>
  MkColl("single", "new", <<2>>),                                      \* 17  RwLock (slot 2)
  MkColl("boxed", "try_new", <<2, 1, 3>>),                             \* 18  boxed of three
  MkColl("retry", "try_new", <<3, 1, 2>>),                             \* 19  retry of three
  MkColl("retry", "try_new", <<2, 1>>),                                \* 20  retry of two RwLocks
  MkColl("boxed", "try_new", <<4, 1>>),                                \* 21  boxed over an owned unit and a leaf
  MkColl("ref", "try_new", <<3, 2, 1>>),                               \* 22  ref of three
  MkColl("retry", "try_new", <<4, 2, 1>>)                              \* 23  retry[unit, 2, 1]
>>
SeqSc0 == [arena |-> Arena, colls |-> SeqCollTab, progs |-> <<>>, policy |-> "RP", faults |-> NoFaults]
SeqAllRw(c) == \A l \in SeqRange(Decl(SeqSc0, c)) : Arena[l].k = "R"

SeqCalls ==
  {Call(cs.api, cs.c, cs.key, IF ApiScoped(cs.api) THEN "scope" ELSE cs.rel, MkBody(SeqSc0, cs.c, cs.api, cs.b, cs.dc)) :
     cs \in {x \in [api : SeqApis, c : SeqColls, key : SeqKeys, rel : SeqRels, b : SeqBodies, dc : SeqDbgColls \cup {0}] :
               /\ ApiMode(x.api) = "r" => SeqAllRw(x.c)
               /\ ~ApiScoped(x.api) => x.key = "owned"
               /\ ApiScoped(x.api) => x.rel = CHOOSE r \in SeqRels : TRUE
               /\ (x.b \in {"dbg", "access", "dupcheck"}) = (x.dc # 0)
               /\ x.b = "clearpanic" => SeqCollTab[x.c].kind = "pois"}}
BlankItem(k) == [k |-> k, api |-> "", c |-> 0, key |-> "", rel |-> "", body |-> <<>>, name |-> ""]
SeqItems == SeqCalls
            \cup {BlankItem(k) : k \in SeqKeyOps}
            \cup {[BlankItem("op") EXCEPT !.name = o[1], !.c = o[2]] : o \in SeqTopOps}
SeqMains == UNION {[1..n -> SeqItems] : n \in 1..SeqMaxLen}
HolderProg(h) == IF h[1] = "none" THEN <<>>
                 ELSE <<Call(h[1], h[2], "owned", IF ApiScoped(h[1]) THEN "scope" ELSE "drop",
                             MkBody(SeqSc0, h[2], h[1], "acc", 0))>>
SeqScens == {[SeqSc0 EXCEPT !.progs = <<mp, HolderProg(h)>>, !.policy = pol] :
               mp \in SeqMains, h \in SeqHolders, pol \in Policies}

(***************************************************************************)
(* Family "fault": TLC enumerates the fault positions (the index of the     *)
(* raw operation that panics is part of the initial state).                 *)
(***************************************************************************)
FltCalls ==
  {Call(cs.api, cs.c, cs.key, IF ApiScoped(cs.api) THEN "scope" ELSE cs.rel, MkBody(SeqSc0, cs.c, cs.api, "acc", 0)) :
     cs \in {x \in [api : FltApis, c : FltColls, key : FltKeys, rel : FltRels] :
               /\ ApiMode(x.api) = "r" => SeqAllRw(x.c)
               /\ ~ApiScoped(x.api) => x.key = "owned"
               /\ ApiScoped(x.api) => x.rel = CHOOSE r \in FltRels : TRUE}}
ProbeSeq(S, api) == LET q == SetToSeq(S) IN [i \in 1..Len(q) |-> Call(api, q[i], "owned", "drop", <<>>)]
FltScens == {[SeqSc0 EXCEPT !.progs = <<<<ca>> \o ProbeSeq(FltTryProbes, "try_lock") \o ProbeSeq(FltLockProbes, "lock"),
                                        HolderProg(h)>>,
                            !.faults = f] :
               ca \in FltCalls, h \in FltHolders,
               f \in IF FltPersist = {} THEN {[k |-> "oneshot", at |-> n] : n \in 1..FltMaxAt}
                     ELSE {[k |-> "persist", l |-> p[1], ops |-> <<p[2]>>] : p \in FltPersist}}

(***************************************************************************)
(* Family "ctor": TLC as the enumerator of constructor inputs: every member *)
(* list of length 0..CtorMaxLen (with repetition, so duplicates at every    *)
(* pair of positions, adjacent or not, and "listed next to a nested         *)
(* collection that already contains it").                                    *)
(***************************************************************************)
CtorMenu == <<
  MkColl("boxed", "try_new", <<1, 2>>),      \* coll 1: nested boxed[1,2]
  MkColl("retry", "try_new", <<2, 3>>),      \* coll 2: nested retry[2,3]
  MkColl("pois", "new", <<1>>),              \* coll 3: Poisonable<RwLock 1>
  MkColl("ref", "try_new", <<3, 1>>)         \* coll 4: nested ref[3,1]
>>
CtorMembers == <<[s |-> 1, c |-> 0], [s |-> 2, c |-> 0], [s |-> 3, c |-> 0], [s |-> 4, c |-> 0],
                 [s |-> 0, c |-> 1], [s |-> 0, c |-> 2], [s |-> 0, c |-> 3], [s |-> 0, c |-> 4]>>
CtorLists == UNION {[1..n -> CtorUniv] : n \in 0..CtorMaxLen}
CtorScen(kind, lst) ==
  LET tc  == [kind |-> kind, ctor |-> "try_new", items |-> [i \in 1..Len(lst) |-> CtorMembers[lst[i]]]]
      sc0 == [arena |-> Arena, colls |-> Append(CtorMenu, tc), progs |-> <<<<>>>>, policy |-> "RP", faults |-> NoFaults]
      me  == Len(CtorMenu) + 1
      dup == HasDupSeq(RanksOf(Exposed(sc0, me)))
  IN [sc0 EXCEPT !.progs = <<IF dup THEN <<>> ELSE <<Call("lock", me, "owned", "drop", MkBody(sc0, me, "lock", "acc", 0))>>>>]
CtorScens == {CtorScen(k, l) : k \in CtorKinds, l \in CtorLists}

RawScens == SetToSeq(CASE Family = "conc"  -> ConcScens
                       [] Family = "ctor"  -> CtorScens
                       [] Family = "seq"   -> SeqScens
                       [] Family = "fault" -> FltScens)

\* (one line per scenario is printed for the replay generator)
Mine(i) == i % PartN = PartK
\* NB: a definition used as a CONSTANT override is re-evaluated by TLC on every
\* use; the indirection MCScenTab == MCScenTab0 makes the table a cached value.
MCScenTab0 == LET rs == RawScens IN
             [i \in 1..Len(rs) |-> IF Mine(i) /\ PrintT(<<"SCEN", i, ToJson(rs[i])>>) THEN Derive(rs[i]) ELSE <<>>]
MCScenTab == MCScenTab0
MCInit == \E s \in {i \in 1..Len(ScenTab) : Mine(i)} : InitFor(s)

LiveSpec == MCInit /\ [][Next]_vars /\ (\A t \in 1..4 : WF_vars(Step(t))) /\ WF_vars(Finish)

\* edge printer: one schedule per generated successor; a successor in which the
\* monitor records a new violation is also printed as a model-level
\* counter-example ("MV"), to be replayed on the real code before it is believed
NextP == /\ Next
         /\ PrintT(<<"E", sid, hist'>>)
         /\ \A v \in mon'.viol \ mon.viol :
               PrintT("MV " \o ToJson([sid |-> sid, p |-> v.p, s |-> v.s, h |-> hist']))
=============================================================================
