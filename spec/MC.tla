-------------------------------- MODULE MC --------------------------------
(***************************************************************************)
(* Bounded scenario families for model checking ("for all programs").      *)
(* The constant Family selects one; TLC enumerates its scenarios as        *)
(* initial states and explores every interleaving of each.                 *)
(*                                                                         *)
(* Shared arena                                                            *)
(*   slot 1,2 : RwLock   slot 3 : Mutex                                    *)
(*   slot 4   : OwnedLockCollection over the private RwLocks 6,5 (listing  *)
(*              order 6,5 differs from address order)                      *)
(***************************************************************************)
EXTENDS HappyLock, Families, Json

CONSTANTS Family,     \* "conc" | "seq"
          PartK, PartN, \* this TLC process explores scenarios i with i % PartN = PartK
          \* ---- family "conc": NT threads, one call each
          Kinds,      \* subset of {"single","owned","boxed","ref","retry"}
          ApisA,      \* api set of thread 1
          ApisB,      \* api set of the other threads
          UnivA, UnivB, \* top-level slots the call of thread 1 / the others may list
          MaxLenA, MaxLenB,
          Policies,   \* subset of {"RP","WP"}
          NT,         \* number of threads (2 or 3)
          Keys,       \* key styles for scoped calls, subset of {"lent","owned"}
          ConcBodies, \* bodies of thread 1's call: subset of {"acc","none","panic","dbg"}
          \* ---- family "seq": thread 1 runs every sequence of 1..SeqMaxLen items, thread 2 is a holder
          SeqColls,   \* collections (indices into SeqCollTab) the main thread calls
          SeqApis, SeqRels, SeqKeys, SeqBodies,
          SeqKeyOps,  \* subset of {"probe","getkey","dropkey","forgetkey"}
          SeqTopOps,  \* set of <<name, coll>> : top-level non-acquiring operations
          SeqDbgColls,\* collections formatted with {:?} by "dbg" bodies
          SeqMaxLen,
          SeqHolders  \* set of <<api, coll>> the second thread holds (<<"none", 0>> : no holder)

Arena == <<Leaf("R"), Leaf("R"), Leaf("M"), Unit(<<6, 5>>), Leaf("R"), Leaf("R")>>

SlotLists(kind, U, maxlen) ==
  IF kind = "single" THEN {<<s>> : s \in {x \in U : Arena[x].k # "O"}}
  ELSE IF kind = "owned" THEN {<<s>> : s \in {x \in U : Arena[x].k = "O"}}
  ELSE Arrangements(U, 1, maxlen)

CallSpecs(apis, U, maxlen) ==
  {cs \in [kind : Kinds, slots : UNION {SlotLists(k, U, maxlen) : k \in Kinds}, api : apis, key : Keys] :
     /\ cs.slots \in SlotLists(cs.kind, U, maxlen)
     /\ ApiMode(cs.api) = "r" => AllRw(Arena, cs.slots)
     /\ ~ApiScoped(cs.api) => cs.key = "owned"}

FirstPath(sc, c) == LET P == PathsC(sc, c) IN CHOOSE p \in P : \A q \in P : Len(p) <= Len(q)

\* the body of a call: b \in {"none","acc","panic","dbg"}; dbg formats collection dc inside the critical section
MkBody(sc, c, api, b, dc) ==
  CASE b = "none"  -> <<>>
    [] b = "acc"   -> <<Acc(FirstPath(sc, c), ApiMode(api))>>
    [] b = "panic" -> <<Acc(FirstPath(sc, c), ApiMode(api)), [o |-> "panic", pos |-> <<>>, m |-> "", name |-> "", c |-> 0]>>
    [] b = "dbg"   -> <<[o |-> "op", pos |-> <<>>, m |-> "", name |-> "debug", c |-> dc]>>

MkScen(css, pol, b1) ==
  LET colls == [i \in 1..Len(css) |-> MkColl(css[i].kind, "try_new", css[i].slots)]
      sc0   == [arena |-> Arena, colls |-> colls, progs |-> <<>>, policy |-> pol, faults |-> NoFaults]
  IN [sc0 EXCEPT !.progs = [i \in 1..Len(css) |->
        <<Call(css[i].api, i, css[i].key, IF ApiScoped(css[i].api) THEN "scope" ELSE "drop",
               MkBody(sc0, i, css[i].api, IF i = 1 THEN b1 ELSE "acc", i))>>]]

Combos == IF NT = 2 THEN {<<a, b>> : a \in CallSpecs(ApisA, UnivA, MaxLenA), b \in CallSpecs(ApisB, UnivB, MaxLenB)}
          ELSE {<<a, b, c>> : a \in CallSpecs(ApisA, UnivA, MaxLenA),
                              b \in CallSpecs(ApisB, UnivB, MaxLenB), c \in CallSpecs(ApisB, UnivB, MaxLenB)}

ConcScens == {MkScen(cb, pol, b) : cb \in Combos, pol \in Policies, b \in ConcBodies}

(***************************************************************************)
(* Family "seq": a fixed menu of collections over the shared arena; the    *)
(* main thread runs every sequence of 1..SeqMaxLen items of the selected   *)
(* vocabulary; an optional second thread holds a collection meanwhile.     *)
(***************************************************************************)
CollItem(c) == [s |-> 0, c |-> c]
SeqCollTab == <<
  MkColl("single", "new", <<1>>),                                      \*  1  RwLock
  MkColl("single", "new", <<3>>),                                      \*  2  Mutex
  MkColl("boxed", "try_new", <<2, 1>>),                                \*  3
  MkColl("retry", "try_new", <<1, 4>>),                                \*  4  retry over a leaf and an owned unit
  MkColl("ref", "try_new", <<2, 1>>),                                  \*  5
  MkColl("owned", "new", <<4>>),                                       \*  6
  [kind |-> "pois", ctor |-> "new", items |-> <<CollItem(3)>>],        \*  7  Poisonable<boxed>
  MkColl("pois", "new", <<1>>),                                        \*  8  Poisonable<RwLock>
  [kind |-> "boxed", ctor |-> "try_new", items |-> <<CollItem(8), [s |-> 2, c |-> 0]>>],  \* 9 boxed[pois(1), 2]
  [kind |-> "pois", ctor |-> "new", items |-> <<CollItem(4)>>],        \* 10  Poisonable<retry>
  [kind |-> "pois", ctor |-> "new", items |-> <<CollItem(8)>>],        \* 11  Poisonable<Poisonable<RwLock>>
  [kind |-> "retry", ctor |-> "try_new", items |-> <<CollItem(8), [s |-> 2, c |-> 0]>>],  \* 12 retry[pois(1), 2]
  MkColl("boxed", "try_new", <<3, 2>>),                                \* 13  boxed over a Mutex and an RwLock
  [kind |-> "boxed", ctor |-> "try_new", items |-> <<CollItem(4), [s |-> 2, c |-> 0]>>],  \* 14 boxed[retry[1,unit], 2]
  [kind |-> "ref", ctor |-> "try_new", items |-> <<CollItem(8), [s |-> 2, c |-> 0]>>],    \* 15 ref[pois(1), 2]
  [kind |-> "pois", ctor |-> "new", items |-> <<CollItem(9)>>]                            \* 16 Poisonable<boxed[pois(1), 2]>
>>
SeqSc0 == [arena |-> Arena, colls |-> SeqCollTab, progs |-> <<>>, policy |-> "RP", faults |-> NoFaults]
SeqAllRw(c) == \A l \in SeqRange(Decl(SeqSc0, c)) : Arena[l].k = "R"

SeqCalls ==
  {Call(cs.api, cs.c, cs.key, IF ApiScoped(cs.api) THEN "scope" ELSE cs.rel, MkBody(SeqSc0, cs.c, cs.api, cs.b, cs.dc)) :
     cs \in {x \in [api : SeqApis, c : SeqColls, key : SeqKeys, rel : SeqRels, b : SeqBodies, dc : SeqDbgColls \cup {0}] :
               /\ ApiMode(x.api) = "r" => SeqAllRw(x.c)
               /\ ~ApiScoped(x.api) => x.key = "owned"
               /\ ApiScoped(x.api) => x.rel = CHOOSE r \in SeqRels : TRUE
               /\ (x.b = "dbg") = (x.dc # 0)}}
BlankItem(k) == [k |-> k, api |-> "", c |-> 0, key |-> "", rel |-> "", body |-> <<>>, name |-> ""]
SeqItems == SeqCalls
            \cup {BlankItem(k) : k \in SeqKeyOps}
            \cup {[BlankItem("op") EXCEPT !.name = o[1], !.c = o[2]] : o \in SeqTopOps}
SeqMains == UNION {[1..n -> SeqItems] : n \in 1..SeqMaxLen}
HolderProg(h) == IF h[1] = "none" THEN <<>>
                 ELSE <<Call(h[1], h[2], "owned", IF ApiScoped(h[1]) THEN "scope" ELSE "drop",
                             MkBody(SeqSc0, h[2], h[1], "acc", 0))>>
SeqScens == {[SeqSc0 EXCEPT !.progs = <<mp, HolderProg(h)>>, !.policy = pol] :
               mp \in SeqMains, h \in SeqHolders, pol \in Policies}

RawScens == SetToSeq(CASE Family = "conc" -> ConcScens
                       [] Family = "seq"  -> SeqScens)

\* (one line per scenario is printed for the replay generator)
Mine(i) == i % PartN = PartK
\* NB: a definition used as a CONSTANT override is re-evaluated by TLC on every
\* use; the indirection MCScenTab == MCScenTab0 makes the table a cached value.
MCScenTab0 == LET rs == RawScens IN
             [i \in 1..Len(rs) |-> IF Mine(i) /\ PrintT(<<"SCEN", i, ToJson(rs[i])>>) THEN Derive(rs[i]) ELSE <<>>]
MCScenTab == MCScenTab0
MCInit == \E s \in {i \in 1..Len(ScenTab) : Mine(i)} : InitFor(s)

\* edge printer: one schedule per generated successor; a successor in which the
\* monitor records a new violation is also printed as a model-level
\* counter-example ("MV"), to be replayed on the real code before it is believed
NextP == /\ Next
         /\ PrintT(<<"E", sid, hist'>>)
         /\ \A v \in mon'.viol \ mon.viol :
               PrintT("MV " \o ToJson([sid |-> sid, p |-> v.p, s |-> v.s, h |-> hist']))
=============================================================================
