CONSTANTS
 MaxLen = 3
 Mode = "full"
INIT Init
NEXT Next
INVARIANT Emitted
CHECK_DEADLOCK FALSE
