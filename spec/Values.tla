------------------------------- MODULE Values -------------------------------
(***************************************************************************)
(* C16: every value placed in a lock or collection is dropped exactly once *)
(* on every construction / destruction path, and get_mut / into_inner /    *)
(* into_child / into_iter hand back exactly the stored values at the       *)
(* user's declared positions, reflecting the last write under a lock.      *)
(*                                                                         *)
(* A scenario is one sequential history                                    *)
(*   [kind, shape, n, ctor, ops, dtor]                                     *)
(* over payloads with identities 1..n (value 10*id).  The model keeps the  *)
(* abstract content `vals` (declared order) and says which `vret` events   *)
(* (a value handed back, with path / position / id / value) must be        *)
(* observed and that each identity is dropped exactly once.                *)
(***************************************************************************)
EXTENDS Naturals, Sequences, FiniteSets, TLC

Op(o, pos, val) == [o |-> o, pos |-> pos, val |-> val]

InitVals(n) == [i \in 1..n |-> [id |-> i, val |-> 10 * i]]

\* content after the first k operations
RECURSIVE ValsAfter(_, _)
ValsAfter(sc, k) ==
  IF k = 0 THEN InitVals(sc.n)
  ELSE LET v  == ValsAfter(sc, k - 1)
           op == sc.ops[k] IN
       IF op.o = "extend" THEN Append(v, [id |-> Len(v) + 1, val |-> 10 * (Len(v) + 1)])
       ELSE [v EXCEPT ![op.pos].val = op.val]

\* the vret events a correct implementation produces, in order
OpRets(sc) ==
  LET idx == SelectSeq([k \in 1..Len(sc.ops) |-> k], LAMBDA k : sc.ops[k].o # "extend") IN
  [j \in 1..Len(idx) |->
     LET k == idx[j]
         v == ValsAfter(sc, k - 1)
         op == sc.ops[k] IN
     [path |-> IF op.o = "lockw" THEN "guard" ELSE "get_mut", pos |-> op.pos, id |-> v[op.pos].id, val |-> v[op.pos].val]]
DtorRets(sc) ==
  LET v == ValsAfter(sc, Len(sc.ops)) IN
  IF sc.dtor = "drop" \/ sc.ctor \in {"reject", "zst"} THEN <<>>
  ELSE [i \in 1..Len(v) |-> [path |-> sc.dtor, pos |-> i, id |-> v[i].id, val |-> v[i].val]]
ExpectedRets(sc) == OpRets(sc) \o DtorRets(sc)
AllIds(sc) == IF sc.ctor = "reject" THEN {1, 2} ELSE IF sc.ctor = "zst" THEN {1} ELSE 1..Len(ValsAfter(sc, Len(sc.ops)))

(***************************************************************************)
(* The scenario family                                                     *)
(***************************************************************************)
Sizes(shape, maxn) == IF shape = "tuple2" THEN {2} ELSE IF shape = "single" THEN {1} ELSE 0..maxn

RECURSIVE OpSeqs(_, _, _, _)
\* all operation sequences of length <= k for a container of current size n
OpSeqs(kind, shape, n, k) ==
  IF k = 0 THEN {<<>>}
  ELSE {<<>>} \cup
       UNION {
         {<<Op("lockw", p, 100 + k)>> \o r : r \in OpSeqs(kind, shape, n, k - 1)} : p \in 1..n }
       \cup (IF kind \in {"retry", "owned"}
             THEN UNION {{<<Op("getmut", p, 200 + k)>> \o r : r \in OpSeqs(kind, shape, n, k - 1)} : p \in 1..n}
             ELSE {})
       \cup (IF kind \in {"retry", "owned"} /\ shape = "vec"
             THEN {<<Op("extend", 0, 0)>> \o r : r \in OpSeqs(kind, shape, n + 1, k - 1)}
             ELSE {})

Ctors(kind, shape) ==
  IF kind = "boxed" THEN {"new", "try_new", "from"} \cup (IF shape \in {"vec", "boxslice"} THEN {"from_iter"} ELSE {})
  ELSE IF kind = "pois" THEN {"new"} ELSE {"new", "from"}
Dtors(kind, shape) ==
  {"drop", "into_inner", "into_child"} \cup (IF shape \in {"array", "vec", "boxslice"} THEN {"into_iter"} ELSE {})
Shapes(kind) == IF kind = "pois" THEN {"single"} ELSE {"tuple2", "array", "vec", "boxslice"}

Scenarios(kinds, maxn, maxops) ==
  UNION {UNION {UNION {
      {[kind |-> kd, shape |-> sh, n |-> n, ctor |-> ct, ops |-> ops, dtor |-> dt] :
          ct \in Ctors(kd, sh), ops \in OpSeqs(kd, sh, n, maxops), dt \in Dtors(kd, sh)}
      : n \in Sizes(sh, maxn)} : sh \in Shapes(kd)} : kd \in kinds}
  \cup {[kind |-> kd, shape |-> "mixed", n |-> 2, ctor |-> "reject", ops |-> <<>>, dtor |-> "drop"] :
          kd \in kinds \cap {"boxed", "retry"}}
  \* an empty (zero-sized) owned collection next to a lock: duplicate-free, must be accepted (C07)
  \cup {[kind |-> kd, shape |-> "zst", n |-> 1, ctor |-> "zst", ops |-> <<>>, dtor |-> "drop"] :
          kd \in (kinds \cap {"boxed", "retry"}) \cup {"ref"}}
=============================================================================
