------------------------------- MODULE Values -------------------------------
(***************************************************************************)
(* C16: every value placed in a lock or collection is dropped exactly once *)
(* on every construction / destruction path, and get_mut / into_inner /    *)
(* into_child / into_iter hand back exactly the stored values at the       *)
(* user's declared positions, reflecting the last write under a lock.      *)
(*                                                                         *)
(* A scenario is one sequential history                                    *)
(*   [kind, shape, n, ctor, ops, dtor]                                     *)
(* over payloads with identities 1..n (value 10*id).  The model keeps the  *)
(* abstract content `vals` (declared order) and says which `vret` events   *)
(* (a value handed back, with path / position / id / value) must be        *)
(* observed and that each identity is dropped exactly once.                *)
(***************************************************************************)
EXTENDS Naturals, Sequences, FiniteSets, TLC

Op(o, pos, val) == [o |-> o, pos |-> pos, val |-> val]

InitVals(n) == [i \in 1..n |-> [id |-> i, val |-> 10 * i]]

\* operations that hand a value back to the user, and the access path they report
WriteOps == {"lockw", "scopedw", "getmut", "childmut", "itermut"}
ReadOps  == {"lockr", "scopedr"}
PathOf(o) == CASE o = "lockw" -> "guard" [] o = "scopedw" -> "scoped" [] o = "getmut" -> "get_mut"
               [] o = "childmut" -> "child_mut" [] o = "itermut" -> "iter_mut"
               [] o = "lockr" -> "read" [] o = "scopedr" -> "scoped_read" [] OTHER -> "?"

\* content after the first k operations
RECURSIVE ValsAfter(_, _)
ValsAfter(sc, k) ==
  IF k = 0 THEN InitVals(sc.n)
  ELSE LET v  == ValsAfter(sc, k - 1)
           op == sc.ops[k] IN
       IF op.o = "extend" THEN Append(v, [id |-> Len(v) + 1, val |-> 10 * (Len(v) + 1)])
       ELSE IF op.o \in ReadOps THEN v
       ELSE [v EXCEPT ![op.pos].val = op.val]

\* the vret events a correct implementation produces, in order
OpRets(sc) ==
  LET idx == SelectSeq([k \in 1..Len(sc.ops) |-> k], LAMBDA k : sc.ops[k].o # "extend") IN
  [j \in 1..Len(idx) |->
     LET k == idx[j]
         v == ValsAfter(sc, k - 1)
         op == sc.ops[k] IN
     [path |-> PathOf(op.o), pos |-> op.pos, id |-> v[op.pos].id, val |-> v[op.pos].val]]
DtorRets(sc) ==
  LET v == ValsAfter(sc, Len(sc.ops)) IN
  IF sc.dtor = "drop" \/ sc.ctor \in {"reject", "zst"} THEN <<>>
  ELSE [i \in 1..Len(v) |-> [path |-> sc.dtor, pos |-> i, id |-> v[i].id, val |-> v[i].val]]
ExpectedRets(sc) == OpRets(sc) \o DtorRets(sc)
AllIds(sc) == IF sc.ctor = "reject" THEN {1, 2} ELSE IF sc.ctor = "zst" THEN {1} ELSE 1..Len(ValsAfter(sc, Len(sc.ops)))

(***************************************************************************)
(* The scenario family                                                     *)
(*   mem   : "m"  members are Mutex<D>      "rw" members are RwLock<D>      *)
(*   kind  : boxed | retry | owned | ref | pois                            *)
(*   ctor  : new | try_new | from | from_iter | new_ref (collection over   *)
(*           a borrowed container) | reject | zst                          *)
(***************************************************************************)
Sizes(shape, maxn) == IF shape = "tuple2" THEN {2} ELSE IF shape = "single" THEN {1} ELSE 0..maxn

Borrowing(kind, ctor) == kind = "ref" \/ ctor = "new_ref"      \* the collection does not own the container

\* which operations a history over this collection may contain
OpMenu(kind, shape, mem, ctor) ==
  IF mem = "rw" THEN {"lockw", "scopedw", "lockr", "scopedr"}
  ELSE {"lockw", "scopedw"}
       \cup (IF kind \in {"retry", "owned"} /\ ~Borrowing(kind, ctor) THEN {"getmut", "childmut"} ELSE {})
       \cup (IF kind = "pois" THEN {"getmut", "childmut"} ELSE {})
       \cup (IF kind = "retry" /\ ~Borrowing(kind, ctor) /\ shape \in {"array", "vec", "boxslice"} THEN {"itermut"} ELSE {})
       \cup (IF kind \in {"retry", "owned"} /\ ~Borrowing(kind, ctor) /\ shape = "vec" THEN {"extend"} ELSE {})

ValOf(o, k) == CASE o = "lockw" -> 100 + k [] o = "getmut" -> 200 + k [] o = "scopedw" -> 300 + k
                 [] o = "childmut" -> 400 + k [] o = "itermut" -> 500 + k [] OTHER -> 0

RECURSIVE OpSeqs(_, _, _)
\* all operation sequences of length <= k over the menu, for a container of current size n
OpSeqs(menu, n, k) ==
  IF k = 0 THEN {<<>>}
  ELSE {<<>>} \cup
       UNION {UNION {
         {<<Op(o, p, ValOf(o, k))>> \o r : r \in OpSeqs(menu, n, k - 1)} : p \in 1..n } : o \in menu \ {"extend"}}
       \cup (IF "extend" \in menu
             THEN {<<Op("extend", 0, 0)>> \o r : r \in OpSeqs(menu, n + 1, k - 1)}
             ELSE {})

Ctors(kind, shape, mem) ==
  IF kind = "boxed" THEN {"new", "try_new", "from", "new_ref"} \cup (IF shape \in {"vec", "boxslice"} THEN {"from_iter"} ELSE {})
  ELSE IF kind = "pois" THEN {"new"}
  ELSE IF kind = "ref" THEN {"new", "try_new"}
  ELSE IF kind = "retry" THEN {"new", "from", "new_ref"}
  ELSE {"new", "from"}
Dtors(kind, shape, mem, ctor) ==
  IF Borrowing(kind, ctor) \/ mem = "rw" THEN {"drop", "into_inner"}     \* of the borrowed container, after the collection is gone
  ELSE {"drop", "into_inner", "into_child"} \cup (IF shape \in {"array", "vec", "boxslice"} THEN {"into_iter"} ELSE {})
Shapes(kind) == IF kind = "pois" THEN {"single"} ELSE {"tuple2", "array", "vec", "boxslice"}
Mems(kind) == IF kind = "pois" THEN {"m"} ELSE {"m", "rw"}

Scenarios(kinds, maxn, maxops) ==
  UNION {UNION {UNION {UNION {UNION {
      {[kind |-> kd, shape |-> sh, mem |-> mm, n |-> n, ctor |-> ct, ops |-> ops, dtor |-> dt] :
          ops \in OpSeqs(OpMenu(kd, sh, mm, ct), n, maxops), dt \in Dtors(kd, sh, mm, ct)}
      : ct \in Ctors(kd, sh, mm)} : n \in Sizes(sh, maxn)} : mm \in Mems(kd)} : sh \in Shapes(kd)} : kd \in kinds}
  \cup {[kind |-> kd, shape |-> "mixed", mem |-> "m", n |-> 2, ctor |-> "reject", ops |-> <<>>, dtor |-> "drop"] :
          kd \in kinds \cap {"boxed", "retry"}}
  \* an empty (zero-sized) owned collection next to a lock: duplicate-free, must be accepted (C07)
  \cup {[kind |-> kd, shape |-> "zst", mem |-> "m", n |-> 1, ctor |-> "zst", ops |-> <<>>, dtor |-> "drop"] :
          kd \in (kinds \cap {"boxed", "retry", "ref"})}
=============================================================================
