#!/bin/bash
# run the thorough tier of the given properties one after another
cd "$(dirname "$(readlink -f "$0")")"
for p in "$@"; do
  s=$(date +%s); out=$(./check $p --tier thorough 2>&1); rc=$?; e=$(date +%s)
  echo "$p rc=$rc $((e-s))s known=$(echo "$out" | grep -c KNOWN-FINDING)"; echo "$out" | grep -E 'VIOLATION|TOOL-ERROR|MODEL-MISMATCH|DRIFT' | cut -c1-200 | head -20
done
