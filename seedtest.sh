#!/bin/bash
# usage: seedtest.sh <seed-dir> <prop> [<prop>...]   — apply a seeded change to /repo, run quick checks, undo
set -u
d=/verif/seeded/$1; shift
git -C /repo apply "$d/patch.diff" || { echo "patch does not apply"; exit 2; }
for p in "$@"; do
  out=$(cd /verif && timeout 3000 ./check $p --tier quick 2>&1); rc=$?
  echo "== $p rc=$rc"; echo "$out" | grep -E "VIOLATION|TOOL-ERROR|MODEL-MISMATCH|DRIFT" | cut -c1-220 | head -8; echo "$out" | grep -c KNOWN-FINDING
done
git -C /repo checkout -- .
git -C /repo status --short | head -3
