"""Scenario families ("corpora") and which property uses which, per tier.

A corpus names a TLA+ family module (spec/MC_*.tla), the constants that bound
it in each tier, how many TLC processes explore it, and how many of the
TLC-generated schedules (one per edge of the state graph) are replayed on the
real code (None = all of them: complete edge cover)."""

ALL_APIS = {"lock", "try_lock", "read", "try_read", "scoped_lock", "scoped_try_lock", "scoped_read", "scoped_try_read"}
ALL_KINDS = {"single", "owned", "boxed", "ref", "retry"}

S1, S2, S3, U4 = 1, 2, 3, 4   # arena slots: RwLock, RwLock, Mutex, owned unit over RwLocks 6,5

HOLDERS_2 = {("single", (1,), "lock"), ("single", (1,), "read"), ("single", (3,), "lock"), ("owned", (4,), "lock"),
             ("boxed", (2, 1), "lock"), ("boxed", (4, 1), "lock"), ("retry", (1, 4), "read"), ("retry", (2, 1), "lock")}
HOLDERS_3 = {("single", (1,), "lock"), ("single", (2,), "lock"), ("single", (2,), "read"), ("owned", (4,), "lock"),
             ("owned", (4,), "read"), ("boxed", (2, 1), "lock"), ("retry", (4, 2), "lock")}

CORPORA = {
    # two threads, one call each; thread 1 ranges over every kind x arrangement (0..2 members) x API x key style
    "conc2": dict(
        module="MC.tla",
        quick=dict(consts=dict(Kinds=ALL_KINDS, ApisA=ALL_APIS, CallsB=HOLDERS_2, UnivA={1, 2, 3, 4}, MinLenA=0, MaxLenA=2,
                               Policies={"RP", "WP"}, NT=2, Keys={"owned", "lent"}),
                   parts=14, max_runs=150000),
        thorough=dict(consts=dict(Kinds=ALL_KINDS, ApisA=ALL_APIS,
                                  CallsB=HOLDERS_2 | {("ref", (4, 2), "read"), ("boxed", (2, 4), "try_lock"),
                                                      ("retry", (4, 1), "scoped_lock"), ("single", (3,), "lock")},
                                  UnivA={1, 2, 3, 4}, MinLenA=0, MaxLenA=2,
                                  Policies={"RP", "WP"}, NT=2, Keys={"owned", "lent"}),
                      parts=16, max_runs=500000),
    ),
    # three members in every arrangement: the index arithmetic of rollbacks and of the retry loop
    "size3": dict(
        module="MC.tla",
        quick=dict(consts=dict(Kinds={"boxed", "ref", "retry"}, ApisA=ALL_APIS, CallsB=HOLDERS_3, UnivA={1, 2, 4},
                               MinLenA=3, MaxLenA=3, Policies={"RP", "WP"}, NT=2, Keys={"owned"}),
                   parts=14, max_runs=150000),
        thorough=dict(consts=dict(Kinds={"boxed", "ref", "retry"}, ApisA=ALL_APIS,
                                  CallsB=HOLDERS_3 | {("single", (3,), "lock"), ("boxed", (3, 1), "lock")},
                                  UnivA={1, 2, 3, 4}, MinLenA=3, MaxLenA=4, Policies={"RP", "WP"}, NT=2,
                                  Keys={"owned", "lent"}),
                      parts=16, max_runs=500000),
    ),
    # the constructors that rely on ownership instead of a duplicate check (new, From, collect(), new_unchecked):
    # the sorted kinds must sort, and every kind must lock the same leaves, whichever constructor built the collection
    "ctors": dict(
        module="MC.tla",
        quick=dict(consts=dict(Kinds={"boxed", "ref", "retry"}, ApisA={"lock", "read", "try_lock", "scoped_lock"},
                               CallsB={("boxed", (2, 1), "lock"), ("ref", (1, 2), "read"), ("retry", (1, 4), "lock"),
                                       ("boxed", (4, 1), "lock")},
                               UnivA={1, 2, 4}, MinLenA=2, MaxLenA=3, Policies={"RP"}, NT=2, Keys={"owned"},
                               ConcCtors={"new", "from", "from_iter", "unchecked"}),
                   parts=14, max_runs=100000),
        thorough=dict(consts=dict(Kinds={"boxed", "ref", "retry"}, ApisA=ALL_APIS, CallsB=HOLDERS_2,
                                  UnivA={1, 2, 3, 4}, MinLenA=1, MaxLenA=3, Policies={"RP", "WP"}, NT=2, Keys={"owned"},
                                  ConcCtors={"new", "from", "from_iter", "unchecked"}),
                      parts=16, max_runs=500000),
    ),
    # two threads, each performing its call twice: re-acquisition after drop / failed try / scoped return
    "conc2x2": dict(
        module="MC.tla",
        quick=dict(consts=dict(Kinds={"single", "boxed", "retry"}, ApisA={"lock", "try_lock", "scoped_lock", "read"},
                               CallsB={("single", (1,), "lock"), ("boxed", (2, 1), "try_lock"), ("retry", (1, 4), "read"),
                                       ("owned", (4,), "scoped_lock")},
                               UnivA={1, 2, 4}, MinLenA=1, MaxLenA=2, Policies={"WP"}, NT=2, Keys={"owned"}, Rounds=2),
                   parts=14, max_runs=120000),
        thorough=dict(consts=dict(Kinds=ALL_KINDS, ApisA=ALL_APIS,
                                  CallsB={("single", (1,), "lock"), ("boxed", (2, 1), "try_lock"), ("retry", (1, 4), "read"),
                                          ("owned", (4,), "scoped_lock"), ("ref", (4, 2), "lock"), ("single", (2,), "read")},
                                  UnivA={1, 2, 4}, MinLenA=1, MaxLenA=2, Policies={"RP", "WP"}, NT=2, Keys={"owned", "lent"},
                                  Rounds=2),
                      parts=16, max_runs=500000),
    ),
    # four threads (thorough tier only): sorted vs retrying vs single, overlapping pairs of three locks
    "conc4": dict(
        module="MC.tla",
        quick=dict(consts=dict(Kinds={"boxed", "retry"}, ApisA={"lock"}, CallsB={("boxed", (2, 1), "lock"), ("single", (1,), "lock")},
                               UnivA={1, 2}, MinLenA=2, MaxLenA=2, Policies={"WP"}, NT=4, Keys={"owned"}),
                   parts=14, max_runs=100000),
        thorough=dict(consts=dict(Kinds={"boxed", "retry", "ref"}, ApisA={"lock", "read"},
                                  CallsB={("boxed", (2, 1), "lock"), ("retry", (4, 2), "lock"), ("single", (1,), "read")},
                                  UnivA={1, 2, 4}, MinLenA=2, MaxLenA=2, Policies={"WP"}, NT=4, Keys={"owned"}),
                      parts=16, max_runs=300000),
    ),
    # three threads: rings and mixed kinds over three top-level locks
    "conc3": dict(
        module="MC.tla",
        quick=dict(consts=dict(Kinds={"boxed", "retry", "ref"}, ApisA={"lock", "read"},
                               CallsB={("boxed", (2, 1), "lock"), ("retry", (4, 2), "lock"), ("single", (1,), "lock"),
                                       ("owned", (4,), "read")},
                               UnivA={1, 2, 4}, MinLenA=2, MaxLenA=2, Policies={"WP"}, NT=3, Keys={"owned"}),
                   parts=14, max_runs=150000),
        thorough=dict(consts=dict(Kinds={"boxed", "retry", "ref"}, ApisA={"lock", "try_lock", "read"},
                                  CallsB={("boxed", (2, 1), "lock"), ("retry", (4, 2), "lock"), ("single", (1,), "lock"),
                                          ("owned", (4,), "read")},
                                  UnivA={1, 2, 4}, MinLenA=2, MaxLenA=3, Policies={"RP", "WP"}, NT=3, Keys={"owned"}),
                      parts=16, max_runs=500000),
    ),
}

CORPORA.update({
    # nesting depth 2 and poisonable members against every holder: boxed[pois(1),2], retry[pois(1),2],
    # boxed[retry[1,unit],2], boxed[unit,1], retry[unit,2,1], Poisonable<boxed[pois(1),2]>
    "nest": dict(
        module="MC.tla",
        quick=dict(consts=dict(Family="seq", SeqColls={9, 12, 14, 16, 21, 23}, SeqApis=ALL_APIS,
                               SeqRels={"drop"}, SeqKeys={"owned", "lent"}, SeqBodies={"acc"}, SeqKeyOps=set(), SeqMaxLen=1,
                               SeqHolders={("none", 0), ("lock", 1), ("read", 1), ("lock", 17), ("lock", 6), ("read", 6),
                                           ("lock", 3), ("read", 4), ("lock", 14)},
                               Policies={"RP", "WP"}),
                   parts=14, max_runs=150000),
        thorough=dict(consts=dict(Family="seq", SeqColls={7, 9, 10, 11, 12, 14, 15, 16, 21, 23}, SeqApis=ALL_APIS,
                                  SeqRels={"drop", "unlock"}, SeqKeys={"owned", "lent"}, SeqBodies={"acc"}, SeqKeyOps=set(),
                                  SeqMaxLen=1,
                                  SeqHolders={("none", 0), ("lock", 1), ("read", 1), ("lock", 17), ("lock", 6), ("read", 6),
                                              ("lock", 3), ("read", 4), ("lock", 14), ("scoped_lock", 23), ("try_lock", 9)},
                                  Policies={"RP", "WP"}),
                      parts=16, max_runs=500000),
    ),
    # single-thread histories over the key-affecting vocabulary (+ an optional holder thread)
    "seqkey": dict(
        module="MC.tla",
        quick=dict(consts=dict(Family="seq", SeqColls={1}, SeqApis={"lock", "try_lock", "scoped_lock", "scoped_try_lock"},
                               SeqRels={"drop", "unlock", "forget"}, SeqKeys={"owned", "lent"}, SeqBodies={"none", "panic"},
                               SeqKeyOps={"probe", "getkey", "dropkey", "forgetkey"}, SeqMaxLen=3,
                               SeqHolders={("none", 0), ("lock", 3)}, Policies={"RP"}),
                   parts=14, max_runs=60000),
        thorough=dict(consts=dict(Family="seq", SeqColls={1, 8}, SeqApis={"lock", "try_lock", "scoped_lock", "scoped_try_lock"},
                                  SeqRels={"drop", "unlock", "forget"}, SeqKeys={"owned", "lent"}, SeqBodies={"none", "panic"},
                                  SeqKeyOps={"probe", "getkey", "dropkey", "forgetkey"}, SeqMaxLen=3,
                                  SeqHolders={("none", 0)}, Policies={"RP"}),
                      parts=16, max_runs=500000),
    ),
    # two-item histories over every key-consuming path of every kind (Mutex, RwLock, boxed, retry, Poisonable),
    # normal and panicking, with a key probe in between
    "seqkey2": dict(
        module="MC.tla",
        quick=dict(consts=dict(Family="seq", SeqColls={1, 2, 3, 4, 8}, SeqApis={"lock", "try_lock", "scoped_lock", "scoped_try_lock"},
                               SeqRels={"drop", "unlock"}, SeqKeys={"owned", "lent"}, SeqBodies={"none", "panic"},
                               SeqKeyOps={"probe"}, SeqMaxLen=2, SeqHolders={("none", 0), ("lock", 13)}, Policies={"RP"}),
                   parts=14, max_runs=60000),
        thorough=dict(consts=dict(Family="seq", SeqColls={1, 2, 3, 4, 6, 8}, SeqApis=ALL_APIS,
                                  SeqRels={"drop", "unlock"}, SeqKeys={"owned", "lent"}, SeqBodies={"none", "panic", "probe"},
                                  SeqKeyOps={"probe"}, SeqMaxLen=2, SeqHolders={("none", 0), ("lock", 13)}, Policies={"RP"}),
                      parts=16, max_runs=500000),
    ),
    # three-item poison histories: poison, clear (also while the poisoned guard is live), re-poison, observe
    "poisonseq": dict(
        module="MC.tla",
        quick=dict(consts=dict(Family="seq", SeqColls={7, 8}, SeqApis={"lock", "scoped_lock", "read"},
                               SeqRels={"drop"}, SeqKeys={"owned"}, SeqBodies={"acc", "panic", "clearpanic"},
                               SeqKeyOps=set(), SeqTopOps={("is_poisoned", 8), ("clear_poison", 8), ("is_poisoned", 7)},
                               SeqMaxLen=3, SeqHolders={("none", 0)}, Policies={"RP"}),
                   parts=14, max_runs=60000),
        thorough=dict(consts=dict(Family="seq", SeqColls={7, 8, 11}, SeqApis={"lock", "scoped_lock", "read"},
                                  SeqRels={"drop"}, SeqKeys={"owned"}, SeqBodies={"acc", "panic", "clearpanic"},
                                  SeqKeyOps=set(), SeqTopOps={("is_poisoned", 8), ("clear_poison", 8), ("is_poisoned", 7),
                                                              ("clear_poison", 7)},
                                  SeqMaxLen=3, SeqHolders={("none", 0)}, Policies={"RP"}),
                      parts=16, max_runs=500000),
    ),
    # single-thread sequences over every API flavour x release flavour x key style, with a holder
    "seqapi": dict(
        module="MC.tla",
        quick=dict(consts=dict(Family="seq", SeqColls={1, 3, 4, 6}, SeqApis=ALL_APIS,
                               SeqRels={"drop", "unlock"}, SeqKeys={"owned", "lent"}, SeqBodies={"acc"},
                               SeqKeyOps=set(), SeqMaxLen=2,
                               SeqHolders={("none", 0), ("lock", 3), ("read", 3)}, Policies={"RP"}),
                   parts=14, max_runs=60000),
        thorough=dict(consts=dict(Family="seq", SeqColls={1, 2, 3, 4, 5, 6, 13, 14}, SeqApis=ALL_APIS,
                                  SeqRels={"drop", "unlock"}, SeqKeys={"owned", "lent"}, SeqBodies={"acc"},
                                  SeqKeyOps=set(), SeqMaxLen=2,
                                  SeqHolders={("none", 0), ("lock", 3), ("read", 3)}, Policies={"RP", "WP"}),
                      parts=16, max_runs=500000),
    ),
    # every API flavour and both release styles of a top-level Poisonable (over an RwLock, a boxed and a retrying
    # collection, another Poisonable), without panics, against holders of its leaves
    "poisapi": dict(
        module="MC.tla",
        quick=dict(consts=dict(Family="seq", SeqColls={7, 8, 10, 11}, SeqApis=ALL_APIS,
                               SeqRels={"drop", "unlock"}, SeqKeys={"owned", "lent"}, SeqBodies={"acc"}, SeqKeyOps=set(),
                               SeqMaxLen=1, SeqHolders={("none", 0), ("lock", 1), ("read", 1), ("lock", 3), ("read", 3)},
                               Policies={"RP"}),
                   parts=8, max_runs=60000),
        thorough=dict(consts=dict(Family="seq", SeqColls={7, 8, 10, 11, 16}, SeqApis=ALL_APIS,
                                  SeqRels={"drop", "unlock"}, SeqKeys={"owned", "lent"}, SeqBodies={"acc"}, SeqKeyOps=set(),
                                  SeqMaxLen=2, SeqHolders={("none", 0), ("lock", 1), ("read", 1), ("lock", 3), ("read", 3)},
                                  Policies={"RP", "WP"}),
                      parts=16, max_runs=500000),
    ),
    # ThreadKey::get() from inside the critical section of every API flavour (guard alive / closure running)
    "keyprobe": dict(
        module="MC.tla",
        quick=dict(consts=dict(Family="seq", SeqColls={1, 2, 3, 4, 5, 6, 8}, SeqApis=ALL_APIS,
                               SeqRels={"drop", "unlock"}, SeqKeys={"owned", "lent"}, SeqBodies={"probe"}, SeqKeyOps={"probe"},
                               SeqMaxLen=2, SeqHolders={("none", 0)}, Policies={"RP"}),
                   parts=8, max_runs=60000),
        thorough=dict(consts=dict(Family="seq", SeqColls={1, 2, 3, 4, 5, 6, 7, 8, 9, 12, 13}, SeqApis=ALL_APIS,
                                  SeqRels={"drop", "unlock"}, SeqKeys={"owned", "lent"}, SeqBodies={"probe"}, SeqKeyOps={"probe"},
                                  SeqMaxLen=2, SeqHolders={("none", 0), ("lock", 13)}, Policies={"RP"}),
                      parts=16, max_runs=500000),
    ),
    # panics in user code at every critical section, poisonable wrappers everywhere
    "panic": dict(
        module="MC.tla",
        quick=dict(consts=dict(Family="seq", SeqColls={3, 7, 8, 9, 11, 12, 15, 16}, SeqApis=ALL_APIS,
                               SeqRels={"drop"}, SeqKeys={"owned"}, SeqBodies={"acc", "panic"},
                               SeqKeyOps=set(), SeqTopOps={("is_poisoned", 8), ("clear_poison", 8), ("is_poisoned", 7)},
                               SeqMaxLen=2, SeqHolders={("none", 0)}, Policies={"RP"}),
                   parts=14, max_runs=50000),
        thorough=dict(consts=dict(Family="seq", SeqColls={3, 4, 7, 8, 9, 10, 11, 12, 15, 16}, SeqApis=ALL_APIS,
                                  SeqRels={"drop"}, SeqKeys={"owned", "lent"}, SeqBodies={"acc", "panic"},
                                  SeqKeyOps=set(), SeqTopOps={("is_poisoned", 8), ("clear_poison", 8), ("is_poisoned", 7),
                                                              ("clear_poison", 7), ("is_poisoned", 11), ("clear_poison", 11)},
                                  SeqMaxLen=2, SeqHolders={("none", 0), ("lock", 3)}, Policies={"RP"}),
                      parts=16, max_runs=500000),
    ),
    # two threads, thread 1's critical section panics; thread 2 waits for the same locks
    "concpanic": dict(
        module="MC.tla",
        quick=dict(consts=dict(Kinds=ALL_KINDS, ApisA=ALL_APIS,
                               CallsB={("single", (1,), "lock"), ("owned", (4,), "read"), ("boxed", (4, 1), "lock")},
                               UnivA={1, 2, 4}, MinLenA=1, MaxLenA=2,
                               Policies={"RP"}, NT=2, Keys={"owned", "lent"}, ConcBodies={"panic"}),
                   parts=14, max_runs=150000),
        thorough=dict(consts=dict(Kinds=ALL_KINDS, ApisA=ALL_APIS, CallsB=HOLDERS_2,
                                  UnivA={1, 2, 4}, MinLenA=0, MaxLenA=3,
                                  Policies={"RP", "WP"}, NT=2, Keys={"owned", "lent"}, ConcBodies={"panic"}),
                      parts=16, max_runs=500000),
    ),
    # the same operations by a thread whose key is not alive at that moment (dropped before / re-obtained after)
    "opsnokey": dict(
        module="MC.tla",
        quick=dict(consts=dict(Family="seq", SeqColls=set(), SeqApis={"lock"}, SeqRels={"drop"}, SeqKeys={"owned"}, SeqBodies={"none"},
                               SeqDbgColls=set(), SeqKeyOps={"dropkey", "getkey"},
                               SeqTopOps={("debug", 1), ("debug", 2), ("debug", 3), ("debug", 4), ("debug", 5), ("debug", 6),
                                          ("debug", 7), ("debug", 9), ("debug", 13), ("is_poisoned", 7), ("clear_poison", 7),
                                          ("access", 3), ("access", 4), ("dupcheck", 3), ("dupcheck", 6)},
                               SeqMaxLen=2, SeqHolders={("none", 0), ("lock", 3), ("read", 3), ("lock", 6), ("lock", 13), ("read", 4)},
                               Policies={"RP", "WP"}),
                   parts=8, max_runs=60000),
        thorough=dict(consts=dict(Family="seq", SeqColls=set(), SeqApis={"lock"}, SeqRels={"drop"}, SeqKeys={"owned"}, SeqBodies={"none"},
                                  SeqDbgColls=set(), SeqKeyOps={"dropkey", "getkey"},
                                  SeqTopOps={("debug", 1), ("debug", 2), ("debug", 3), ("debug", 4), ("debug", 5), ("debug", 6),
                                             ("debug", 7), ("debug", 9), ("debug", 13), ("debug", 14), ("is_poisoned", 7),
                                             ("clear_poison", 7), ("access", 3), ("access", 4), ("access", 5), ("dupcheck", 3),
                                             ("dupcheck", 4), ("dupcheck", 6), ("dupcheck", 7)},
                                  SeqMaxLen=2, SeqHolders={("none", 0), ("lock", 3), ("read", 3), ("lock", 6), ("lock", 13), ("read", 4),
                                                           ("lock", 14), ("read", 5), ("lock", 2)},
                                  Policies={"RP", "WP"}),
                      parts=16, max_runs=500000),
    ),
    # non-acquiring operations ({:?}, is_poisoned, clear_poison) against every held pattern
    "ops": dict(
        module="MC.tla",
        quick=dict(consts=dict(Family="seq", SeqColls={1, 2, 3, 4, 5, 6, 7}, SeqApis={"lock", "read", "scoped_lock", "scoped_read"},
                               SeqRels={"drop"}, SeqKeys={"owned"}, SeqBodies={"dbg", "access", "dupcheck"}, SeqDbgColls={1, 2, 3, 4, 5, 6, 7, 9, 13},
                               SeqKeyOps=set(), SeqTopOps={("debug", 1), ("debug", 2), ("debug", 3), ("debug", 4), ("debug", 5),
                                                           ("debug", 6), ("debug", 7), ("debug", 9), ("debug", 13),
                                                           ("is_poisoned", 7), ("clear_poison", 7), ("access", 3), ("access", 4),
                                                           ("access", 5), ("dupcheck", 3), ("dupcheck", 4), ("dupcheck", 6),
                                                           ("dupcheck", 7), ("dupcheck", 1)},
                               SeqMaxLen=1, SeqHolders={("none", 0), ("lock", 3), ("read", 3), ("lock", 6), ("lock", 13), ("read", 4)},
                               Policies={"RP", "WP"}),
                   parts=14, max_runs=100000),
        thorough=dict(consts=dict(Family="seq", SeqColls={1, 2, 3, 4, 5, 6, 7, 9, 13, 14}, SeqApis=ALL_APIS,
                                  SeqRels={"drop"}, SeqKeys={"owned", "lent"}, SeqBodies={"dbg", "access", "dupcheck"},
                                  SeqDbgColls={1, 2, 3, 4, 5, 6, 7, 9, 13, 14},
                                  SeqKeyOps=set(), SeqTopOps={("debug", 1), ("debug", 2), ("debug", 3), ("debug", 4), ("debug", 5),
                                                              ("debug", 6), ("debug", 7), ("debug", 9), ("debug", 13), ("debug", 14),
                                                              ("is_poisoned", 7), ("clear_poison", 7), ("access", 3), ("access", 4),
                                                              ("access", 5), ("dupcheck", 3), ("dupcheck", 4), ("dupcheck", 6),
                                                              ("dupcheck", 7), ("dupcheck", 1), ("dupcheck", 14)},
                                  SeqMaxLen=1, SeqHolders={("none", 0), ("lock", 3), ("read", 3), ("lock", 6), ("lock", 13), ("read", 4),
                                                           ("lock", 14), ("read", 5), ("lock", 2)},
                                  Policies={"RP", "WP"}),
                      parts=16, max_runs=500000),
    ),
})

FLT_PROBES_TRY = {1, 17, 2, 6}
FLT_PROBES_LOCK = {1, 17, 2}
CORPORA.update({
    # one call under a one-shot raw-lock fault at every operation index, then probes of every lock
    "fault": dict(
        module="MC.tla",
        quick=dict(consts=dict(Family="fault", FltColls={1, 2, 3, 6, 18, 19, 21, 22, 23}, FltApis=ALL_APIS,
                               FltKeys={"owned", "lent"}, FltRels={"drop", "unlock"},
                               FltHolders={("none", 0), ("lock", 1), ("lock", 17), ("lock", 2)}, FltMaxAt=10,
                               FltTryProbes=FLT_PROBES_TRY, FltLockProbes=FLT_PROBES_LOCK, Policies={"RP"}),
                   parts=14, max_runs=60000),
        thorough=dict(consts=dict(Family="fault", FltColls={1, 2, 3, 4, 5, 6, 7, 9, 10, 12, 14, 18, 19, 20, 21, 22, 23},
                                  FltApis=ALL_APIS, FltKeys={"owned", "lent"}, FltRels={"drop", "unlock"},
                                  FltHolders={("none", 0), ("lock", 1), ("lock", 17), ("lock", 2), ("read", 1), ("lock", 6)},
                                  FltMaxAt=14, FltTryProbes=FLT_PROBES_TRY, FltLockProbes=FLT_PROBES_LOCK,
                                  Policies={"RP"}),
                      parts=16, max_runs=500000),
    ),
})

CORPORA.update({
    # checked constructors over every member list with repetition (TLC as the input enumerator)
    "ctor": dict(
        module="MC.tla",
        quick=dict(consts=dict(Family="ctor", CtorKinds={"boxed", "ref", "retry"}, CtorUniv={1, 2, 3, 4, 5, 6, 7, 8}, CtorMaxLen=3),
                   parts=14, max_runs=None),
        thorough=dict(consts=dict(Family="ctor", CtorKinds={"boxed", "ref", "retry"}, CtorUniv={1, 2, 3, 4, 5, 7}, CtorMaxLen=6),
                      parts=16, max_runs=None),
    ),
})

CORPORA.update({
    # the persistent "evil lock" profiles of the repository's tests/evil_*.rs: every lock / try / unlock of ONE leaf
    # panics.  The model handles the first fault exactly and approximates later ones, so conformance is not claimed
    # here (drift is expected); the monitor's C12 rules judge the real traces.
    "evil": dict(
        module="MC.tla", monitor_only=True,
        quick=dict(consts=dict(Family="fault", FltColls={1, 2, 3, 18, 19, 21}, FltApis={"lock", "try_lock", "read", "scoped_lock"},
                               FltKeys={"owned"}, FltRels={"drop"}, FltHolders={("none", 0)}, FltMaxAt=1,
                               FltPersist={(1, "lock"), (1, "try"), (1, "unlock"), (3, "lock"), (3, "try"), (3, "unlock"),
                                           (2, "unlock"), (5, "unlock")},
                               FltTryProbes=FLT_PROBES_TRY, FltLockProbes=FLT_PROBES_LOCK, Policies={"RP"}),
                   parts=8, max_runs=30000),
        thorough=dict(consts=dict(Family="fault", FltColls={1, 2, 3, 5, 6, 18, 19, 21, 22, 23}, FltApis=ALL_APIS,
                                  FltKeys={"owned", "lent"}, FltRels={"drop", "unlock"}, FltHolders={("none", 0), ("lock", 17)},
                                  FltMaxAt=1,
                                  FltPersist={(1, "lock"), (1, "try"), (1, "unlock"), (2, "lock"), (2, "try"), (2, "unlock"),
                                              (3, "lock"), (3, "try"), (3, "unlock"), (5, "lock"), (5, "unlock"), (6, "try")},
                                  FltTryProbes=FLT_PROBES_TRY, FltLockProbes=FLT_PROBES_LOCK, Policies={"RP"}),
                      parts=16, max_runs=200000),
    ),
})

PROPS = {
    "C01": dict(corpora=["conc2", "size3", "conc3", "nest", "conc2x2", "conc4", "ctors"], design="DESIGN.md §5 C01"),
    "C02": dict(corpora=["conc2", "size3", "nest", "concpanic", "poisapi"], design="DESIGN.md §5 C02"),
    "C03": dict(corpora=["conc2", "size3", "seqapi", "conc2x2", "panic", "concpanic", "poisapi"], design="DESIGN.md §5 C03"),
    "C04": dict(corpora=["conc2", "size3", "nest", "ctors", "poisapi"], design="DESIGN.md §5 C04"),
    "C05": dict(corpora=["conc2", "size3", "seqapi", "ops", "conc2x2", "panic", "concpanic", "poisapi"], design="DESIGN.md §5 C05"),
    "C08": dict(corpora=["conc2", "size3", "ctors"], design="DESIGN.md §5 C08"),
    "C09": dict(corpora=["conc2", "size3", "conc3", "nest", "conc4"], design="DESIGN.md §5 C09"),
    "C13": dict(corpora=["conc2", "seqapi", "poisapi"], design="DESIGN.md §5 C13"),
    "C06": dict(corpora=["seqkey", "seqkey2", "keyprobe"], design="DESIGN.md §5 C06"),
    "C10": dict(corpora=["panic", "poisonseq"], design="DESIGN.md §5 C10"),
    "C11": dict(corpora=["concpanic", "panic", "seqkey2"], design="DESIGN.md §5 C11"),
    "C17": dict(corpora=["ops", "opsnokey"], design="DESIGN.md §5 C17"),
    "C12": dict(corpora=["fault", "evil"], design="DESIGN.md §5 C12"),
    "C07": dict(corpora=["ctor"], design="DESIGN.md §5 C07"),
}
