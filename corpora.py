"""Scenario families ("corpora") and which property uses which, per tier.

A corpus names a TLA+ family module (spec/MC_*.tla), the constants that bound
it in each tier, how many TLC processes explore it, and how many of the
TLC-generated schedules (one per edge of the state graph) are replayed on the
real code (None = all of them: complete edge cover)."""

ALL_APIS = {"lock", "try_lock", "read", "try_read", "scoped_lock", "scoped_try_lock", "scoped_read", "scoped_try_read"}
ALL_KINDS = {"single", "owned", "boxed", "ref", "retry"}

CORPORA = {
    # two threads, one call each; thread 1 ranges over everything, thread 2 over blocking holders
    "conc2": dict(
        module="MC.tla",
        quick=dict(consts=dict(Kinds=ALL_KINDS, ApisA=ALL_APIS, ApisB={"lock", "read"},
                               UnivA={1, 2, 4}, UnivB={1, 4}, MaxLenA=2, MaxLenB=2,
                               Policies={"RP", "WP"}, NT=2, Keys={"owned", "lent"}),
                   parts=14, max_runs=24000),
        thorough=dict(consts=dict(Kinds=ALL_KINDS, ApisA=ALL_APIS, ApisB=ALL_APIS,
                                  UnivA={1, 2, 4}, UnivB={1, 2, 4}, MaxLenA=3, MaxLenB=2,
                                  Policies={"RP", "WP"}, NT=2, Keys={"owned", "lent"}),
                      parts=16, max_runs=400000),
    ),
    # three threads: rings and mixed kinds over three top-level locks
    "conc3": dict(
        module="MC.tla",
        quick=dict(consts=dict(Kinds={"boxed", "retry", "single"}, ApisA={"lock", "try_lock", "read"},
                               ApisB={"lock"}, UnivA={1, 2, 3}, UnivB={1, 2, 3}, MaxLenA=2, MaxLenB=2,
                               Policies={"WP"}, NT=3, Keys={"owned"}),
                   parts=14, max_runs=12000),
        thorough=dict(consts=dict(Kinds={"boxed", "retry", "single", "ref", "owned"},
                                  ApisA={"lock", "try_lock", "read", "scoped_lock"},
                                  ApisB={"lock", "read"}, UnivA={1, 2, 3, 4}, UnivB={1, 2, 3}, MaxLenA=2, MaxLenB=2,
                                  Policies={"RP", "WP"}, NT=3, Keys={"owned"}),
                      parts=16, max_runs=200000),
    ),
}

SEQ_COLLS_MAIN = {1, 2, 3, 4, 6}
CORPORA.update({
    # single-thread histories over the key-affecting vocabulary (+ an optional holder thread)
    "seqkey": dict(
        module="MC.tla",
        quick=dict(consts=dict(Family="seq", SeqColls={1}, SeqApis={"lock", "try_lock", "scoped_lock", "scoped_try_lock"},
                               SeqRels={"drop", "unlock", "forget"}, SeqKeys={"owned", "lent"}, SeqBodies={"none", "panic"},
                               SeqKeyOps={"probe", "getkey", "dropkey", "forgetkey"}, SeqMaxLen=3,
                               SeqHolders={("none", 0), ("lock", 3)}, Policies={"RP"}),
                   parts=14, max_runs=30000),
        thorough=dict(consts=dict(Family="seq", SeqColls={1, 4, 8}, SeqApis={"lock", "try_lock", "scoped_lock", "scoped_try_lock", "read"},
                                  SeqRels={"drop", "unlock", "forget"}, SeqKeys={"owned", "lent"}, SeqBodies={"none", "panic"},
                                  SeqKeyOps={"probe", "getkey", "dropkey", "forgetkey"}, SeqMaxLen=3,
                                  SeqHolders={("none", 0), ("lock", 3)}, Policies={"RP"}),
                      parts=16, max_runs=300000),
    ),
    # single-thread sequences over every API flavour x release flavour x key style, with a holder
    "seqapi": dict(
        module="MC.tla",
        quick=dict(consts=dict(Family="seq", SeqColls={1, 2, 3, 4, 5, 6, 13, 14}, SeqApis=ALL_APIS,
                               SeqRels={"drop", "unlock"}, SeqKeys={"owned", "lent"}, SeqBodies={"acc"},
                               SeqKeyOps=set(), SeqMaxLen=2,
                               SeqHolders={("none", 0), ("lock", 3), ("read", 3), ("lock", 6)}, Policies={"RP", "WP"}),
                   parts=14, max_runs=24000),
        thorough=dict(consts=dict(Family="seq", SeqColls={1, 2, 3, 4, 5, 6, 7, 9, 13, 14}, SeqApis=ALL_APIS,
                                  SeqRels={"drop", "unlock", "forget"}, SeqKeys={"owned", "lent"}, SeqBodies={"acc", "none"},
                                  SeqKeyOps={"probe"}, SeqMaxLen=2,
                                  SeqHolders={("none", 0), ("lock", 3), ("read", 3), ("lock", 6), ("read", 4)},
                                  Policies={"RP", "WP"}),
                      parts=16, max_runs=300000),
    ),
    # panics in user code at every critical section, poisonable wrappers everywhere
    "panic": dict(
        module="MC.tla",
        quick=dict(consts=dict(Family="seq", SeqColls={3, 7, 8, 9, 11, 12, 15, 16}, SeqApis=ALL_APIS,
                               SeqRels={"drop"}, SeqKeys={"owned"}, SeqBodies={"acc", "panic"},
                               SeqKeyOps=set(), SeqTopOps={("is_poisoned", 8), ("clear_poison", 8), ("is_poisoned", 7)},
                               SeqMaxLen=2, SeqHolders={("none", 0)}, Policies={"RP"}),
                   parts=14, max_runs=24000),
        thorough=dict(consts=dict(Family="seq", SeqColls={1, 2, 3, 4, 5, 6, 7, 8, 9, 10, 11, 12, 15, 16}, SeqApis=ALL_APIS,
                                  SeqRels={"drop", "unlock"}, SeqKeys={"owned", "lent"}, SeqBodies={"acc", "panic"},
                                  SeqKeyOps={"probe"}, SeqTopOps={("is_poisoned", 8), ("clear_poison", 8), ("is_poisoned", 7),
                                                                  ("clear_poison", 7), ("is_poisoned", 11), ("clear_poison", 11)},
                                  SeqMaxLen=2, SeqHolders={("none", 0), ("lock", 3), ("read", 3)}, Policies={"RP", "WP"}),
                      parts=16, max_runs=300000),
    ),
    # two threads, thread 1's critical section panics; thread 2 waits for the same locks
    "concpanic": dict(
        module="MC.tla",
        quick=dict(consts=dict(Kinds=ALL_KINDS, ApisA=ALL_APIS, ApisB={"lock", "read"},
                               UnivA={1, 2, 4}, UnivB={1, 4}, MaxLenA=2, MaxLenB=2,
                               Policies={"RP"}, NT=2, Keys={"owned", "lent"}, ConcBodies={"panic"}),
                   parts=14, max_runs=20000),
        thorough=dict(consts=dict(Kinds=ALL_KINDS, ApisA=ALL_APIS, ApisB=ALL_APIS,
                                  UnivA={1, 2, 4}, UnivB={1, 2, 4}, MaxLenA=3, MaxLenB=2,
                                  Policies={"RP", "WP"}, NT=2, Keys={"owned", "lent"}, ConcBodies={"panic"}),
                      parts=16, max_runs=300000),
    ),
    # non-acquiring operations ({:?}, is_poisoned, clear_poison) against every held pattern
    "ops": dict(
        module="MC.tla",
        quick=dict(consts=dict(Family="seq", SeqColls={1, 2, 3, 4, 5, 6, 7}, SeqApis={"lock", "read", "scoped_lock", "scoped_read"},
                               SeqRels={"drop"}, SeqKeys={"owned"}, SeqBodies={"dbg"}, SeqDbgColls={1, 2, 3, 4, 5, 6, 7, 9, 13},
                               SeqKeyOps=set(), SeqTopOps={("debug", 1), ("debug", 2), ("debug", 3), ("debug", 4), ("debug", 5),
                                                           ("debug", 6), ("debug", 7), ("debug", 9), ("debug", 13),
                                                           ("is_poisoned", 7), ("clear_poison", 7)},
                               SeqMaxLen=1, SeqHolders={("none", 0), ("lock", 3), ("read", 3), ("lock", 6), ("lock", 13), ("read", 4)},
                               Policies={"RP", "WP"}),
                   parts=14, max_runs=30000),
        thorough=dict(consts=dict(Family="seq", SeqColls={1, 2, 3, 4, 5, 6, 7, 9, 13, 14}, SeqApis=ALL_APIS,
                                  SeqRels={"drop"}, SeqKeys={"owned"}, SeqBodies={"dbg"}, SeqDbgColls={1, 2, 3, 4, 5, 6, 7, 9, 13, 14},
                                  SeqKeyOps=set(), SeqTopOps={("debug", 1), ("debug", 2), ("debug", 3), ("debug", 4), ("debug", 5),
                                                              ("debug", 6), ("debug", 7), ("debug", 9), ("debug", 13), ("debug", 14),
                                                              ("is_poisoned", 7), ("clear_poison", 7)},
                                  SeqMaxLen=2, SeqHolders={("none", 0), ("lock", 3), ("read", 3), ("lock", 6), ("lock", 13), ("read", 4)},
                                  Policies={"RP", "WP"}),
                      parts=16, max_runs=300000),
    ),
})

PROPS = {
    "C01": dict(corpora=["conc2", "conc3"], design="DESIGN.md §5 C01"),
    "C02": dict(corpora=["conc2"], design="DESIGN.md §5 C02"),
    "C03": dict(corpora=["conc2", "seqapi"], design="DESIGN.md §5 C03"),
    "C04": dict(corpora=["conc2"], design="DESIGN.md §5 C04"),
    "C05": dict(corpora=["conc2", "seqapi", "ops"], design="DESIGN.md §5 C05"),
    "C08": dict(corpora=["conc2"], design="DESIGN.md §5 C08"),
    "C09": dict(corpora=["conc2", "conc3"], design="DESIGN.md §5 C09"),
    "C13": dict(corpora=["conc2", "seqapi"], design="DESIGN.md §5 C13"),
    "C06": dict(corpora=["seqkey"], design="DESIGN.md §5 C06"),
    "C10": dict(corpora=["panic"], design="DESIGN.md §5 C10"),
    "C11": dict(corpora=["concpanic", "panic"], design="DESIGN.md §5 C11"),
    "C17": dict(corpora=["ops"], design="DESIGN.md §5 C17"),
}
