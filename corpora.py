"""Scenario families ("corpora") and which property uses which, per tier.

A corpus names a TLA+ family module (spec/MC_*.tla), the constants that bound
it in each tier, how many TLC processes explore it, and how many of the
TLC-generated schedules (one per edge of the state graph) are replayed on the
real code (None = all of them: complete edge cover)."""

ALL_APIS = {"lock", "try_lock", "read", "try_read", "scoped_lock", "scoped_try_lock", "scoped_read", "scoped_try_read"}
ALL_KINDS = {"single", "owned", "boxed", "ref", "retry"}

CORPORA = {
    # two threads, one call each; thread 1 ranges over everything, thread 2 over blocking holders
    "conc2": dict(
        module="MC_conc.tla",
        quick=dict(consts=dict(Kinds=ALL_KINDS, ApisA=ALL_APIS, ApisB={"lock", "read"},
                               UnivA={1, 2, 4}, UnivB={1, 4}, MaxLenA=2, MaxLenB=2,
                               Policies={"RP", "WP"}, NT=2, Keys={"owned", "lent"}),
                   parts=14, max_runs=24000),
        thorough=dict(consts=dict(Kinds=ALL_KINDS, ApisA=ALL_APIS, ApisB=ALL_APIS,
                                  UnivA={1, 2, 4}, UnivB={1, 2, 4}, MaxLenA=3, MaxLenB=2,
                                  Policies={"RP", "WP"}, NT=2, Keys={"owned", "lent"}),
                      parts=16, max_runs=400000),
    ),
    # three threads: rings and mixed kinds over three top-level locks
    "conc3": dict(
        module="MC_conc.tla",
        quick=dict(consts=dict(Kinds={"boxed", "retry", "single"}, ApisA={"lock", "try_lock", "read"},
                               ApisB={"lock"}, UnivA={1, 2, 3}, UnivB={1, 2, 3}, MaxLenA=2, MaxLenB=2,
                               Policies={"WP"}, NT=3, Keys={"owned"}),
                   parts=14, max_runs=12000),
        thorough=dict(consts=dict(Kinds={"boxed", "retry", "single", "ref", "owned"},
                                  ApisA={"lock", "try_lock", "read", "scoped_lock"},
                                  ApisB={"lock", "read"}, UnivA={1, 2, 3, 4}, UnivB={1, 2, 3}, MaxLenA=2, MaxLenB=2,
                                  Policies={"RP", "WP"}, NT=3, Keys={"owned"}),
                      parts=16, max_runs=200000),
    ),
}

PROPS = {
    "C01": dict(corpora=["conc2", "conc3"], design="DESIGN.md §5 C01"),
    "C02": dict(corpora=["conc2"], design="DESIGN.md §5 C02"),
    "C03": dict(corpora=["conc2"], design="DESIGN.md §5 C03"),
    "C04": dict(corpora=["conc2"], design="DESIGN.md §5 C04"),
    "C05": dict(corpora=["conc2"], design="DESIGN.md §5 C05"),
    "C08": dict(corpora=["conc2"], design="DESIGN.md §5 C08"),
    "C09": dict(corpora=["conc2", "conc3"], design="DESIGN.md §5 C09"),
    "C13": dict(corpora=["conc2"], design="DESIGN.md §5 C13"),
}
