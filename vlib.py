#!/usr/bin/env python3
"""Shared machinery of the /verif checks: TLC model checking of the scenario
families, schedule extraction (edge cover), replay on the real code through
the harness, and trace validation of the recorded executions with TLC."""
import json, os, re, subprocess, sys, time, random, hashlib, shutil
from concurrent.futures import ThreadPoolExecutor

VERIF = os.path.dirname(os.path.abspath(__file__))
SPEC = os.path.join(VERIF, "spec")
HARNESS = os.path.join(VERIF, "harness")
HBIN = os.path.join(HARNESS, "target", "release", "hlverif")
REPO = "/repo"
NCPU = max(2, min(16, os.cpu_count() or 4))
JAR_CP = "/opt/veriftools/tla/tla2tools.jar:/opt/veriftools/tla/CommunityModules-deps.jar"


class ToolError(Exception):
    pass


def log(*a):
    print(*a, file=sys.stderr, flush=True)


# --------------------------------------------------------------------- build
def build_harness():
    """(Re)build the harness against /repo's current working tree."""
    t0 = time.time()
    env = dict(os.environ, CARGO_NET_OFFLINE="true")
    lock_src = os.path.join(REPO, "Cargo.lock")
    lock_dst = os.path.join(HARNESS, "Cargo.lock")
    if not os.path.exists(lock_dst) and os.path.exists(lock_src):
        shutil.copy(lock_src, lock_dst)
    p = subprocess.run(["cargo", "build", "--release", "--offline"], cwd=HARNESS, env=env,
                       stdout=subprocess.PIPE, stderr=subprocess.STDOUT, text=True, timeout=1200)
    if p.returncode != 0:
        raise ToolError("harness build failed (does /repo still compile?):\n" + p.stdout[-3000:])
    return time.time() - t0


# ----------------------------------------------------------------------- TLC
def tla_value(v):
    if isinstance(v, bool):
        return "TRUE" if v else "FALSE"
    if isinstance(v, int):
        return str(v)
    if isinstance(v, str):
        return '"%s"' % v
    if isinstance(v, (set, frozenset)):
        return "{" + ", ".join(sorted(tla_value(x) for x in v)) + "}"
    if isinstance(v, (list, tuple)):
        return "<<" + ", ".join(tla_value(x) for x in v) + ">>"
    raise ValueError(v)


MC_DEFAULTS = dict(Family="conc", Kinds={"single"}, ApisA={"lock"}, UnivA={1}, MinLenA=0, MaxLenA=1,
                   CallsB={("single", (1,), "lock")}, Policies={"RP"}, NT=2, Keys={"owned"}, ConcBodies={"acc"}, Rounds=1, ConcCtors={"try_new"},
                   SeqColls={1}, SeqApis={"lock"}, SeqRels={"drop"}, SeqKeys={"owned"}, SeqBodies={"acc"},
                   SeqKeyOps=set(), SeqTopOps=set(), SeqDbgColls=set(), SeqMaxLen=1, SeqHolders={("none", 0)},
                   FltColls={1}, FltApis={"lock"}, FltKeys={"owned"}, FltRels={"drop"}, FltHolders={("none", 0)},
                   FltMaxAt=1, FltPersist=set(), FltTryProbes=set(), FltLockProbes=set(),
                   CtorKinds={"boxed"}, CtorUniv={1}, CtorMaxLen=1)


def write_cfg(path, consts, init="MCInit", next_="NextP", invariants=(), view="View", extra="", known=()):
    """Writes <path>.cfg and the root module <path>.tla (EXTENDS MC) that defines the constants'
    values (a TLC cfg file cannot express tuples); returns the module file."""
    consts = dict(MC_DEFAULTS, **consts)
    base = os.path.splitext(path)[0]
    mod = re.sub(r"[^A-Za-z0-9_]", "_", os.path.basename(base))
    mod = "P_" + mod
    tla = os.path.join(os.path.dirname(path), mod + ".tla")
    with open(tla, "w") as f:
        f.write("---- MODULE %s ----\nEXTENDS MC\n" % mod)
        f.write("c_KnownSigs == %s\n" % tla_value(set(known)))
        f.write("c_TrackHist == %s\n" % ("FALSE" if init is None else "TRUE"))
        for k, v in consts.items():
            f.write("c_%s == %s\n" % (k, tla_value(v)))
        f.write("====\n")
    with open(path, "w") as f:
        f.write("CONSTANTS\n  ScenTab <- MCScenTab\n  KnownSigs <- c_KnownSigs\n  TrackHist <- c_TrackHist\n")
        for k in consts:
            f.write("  %s <- c_%s\n" % (k, k))
        if init is None:      # liveness: SPECIFICATION with fairness, no VIEW
            f.write("SPECIFICATION LiveSpec\nPROPERTY Terminates\n")
            view = None
        else:
            f.write("INIT %s\nNEXT %s\n" % (init, next_))
        if view:
            f.write("VIEW %s\n" % view)
        for inv in invariants:
            f.write("INVARIANT %s\n" % inv)
        f.write("CHECK_DEADLOCK FALSE\n")
        f.write(extra)
    return tla


STAT_RE = re.compile(r"(\d+) states generated, (\d+) distinct states found, (\d+) states left on queue")
DEPTH_RE = re.compile(r"The depth of the complete state graph search is (\d+)")
SCEN_RE = re.compile(r'^<<"SCEN", (\d+), (".*")>>\s*$')
EDGE_RE = re.compile(r'^<<"E", (\d+), <<(.*)>>>>\s*$')
MV_RE = re.compile(r'^<<"MV", (\d+), "([^"]*)", "([^"]*)", <<(.*)>>>>\s*$')


def run_tlc(module, cfg, outdir, tag, workers=1, xmx="3g", timeout=1800, env_extra=None, simulate=None,
            java_opts="", cwd=None):
    meta = os.path.join(outdir, "meta-" + tag)
    out = os.path.join(outdir, "tlc-" + tag + ".out")
    cmd = ["java", "-XX:+UseParallelGC", "-XX:ParallelGCThreads=2", "-Xmx" + xmx, "-Xss64m",
           "-DTLA-Library=" + SPEC] + java_opts.split() + \
          ["-cp", JAR_CP, "tlc2.TLC", "-workers", str(workers), "-metadir", meta, "-cleanup",
           "-noGenerateSpecTE", "-config", cfg]
    if simulate:
        cmd += ["-simulate", simulate]
    cmd.append(module)
    env = dict(os.environ)
    env.pop("JAVA_TOOL_OPTIONS", None)
    if env_extra:
        env.update(env_extra)
    with open(out, "w") as f:
        try:
            p = subprocess.run(cmd, cwd=cwd or SPEC, stdout=f, stderr=subprocess.STDOUT, env=env, timeout=timeout)
        except subprocess.TimeoutExpired:
            raise ToolError("TLC timed out (%s)" % tag)
    shutil.rmtree(meta, ignore_errors=True)
    return p.returncode, out


EDGE_CAP_PER_PROCESS = 400000    # edges kept per TLC process (the full count is still reported)


def parse_mc(outfile):
    """-> dict(states_generated, distinct, depth, scen={id: raw}, edges=[(sid, hist)], error)
    If a process printed more than EDGE_CAP_PER_PROCESS edges, a deterministic subsample (by line
    hash) is kept, so that memory stays bounded in the thorough tier; nedges is the true count."""
    import zlib
    r = dict(generated=0, distinct=0, depth=0, scen={}, edges=[], error=None, violated=None, mv=[], nedges=0)
    total = 0
    with open(outfile, "rb") as f:
        for raw in f:
            if raw.startswith(b'<<"E"'):
                total += 1
    keep_mod = 1 if total <= EDGE_CAP_PER_PROCESS else -(-total // EDGE_CAP_PER_PROCESS)
    r["nedges"] = total
    with open(outfile, errors="replace") as f:
        for line in f:
            if line.startswith('<<"E"'):
                if keep_mod > 1 and zlib.crc32(line.encode()) % keep_mod:
                    continue
                m = EDGE_RE.match(line)
                if m:
                    h = [int(x) for x in m.group(2).split(",") if x.strip()]
                    r["edges"].append((int(m.group(1)), h))
            elif line.startswith('"MV '):
                j = json.loads(json.loads(line)[3:])
                r["mv"].append((j["sid"], j["p"], j["s"], list(j["h"])))
            elif line.startswith('<<"SCEN"'):
                m = SCEN_RE.match(line)
                if m:
                    r["scen"][int(m.group(1))] = json.loads(json.loads(m.group(2)))
            else:
                m = STAT_RE.search(line)
                if m:
                    r["generated"], r["distinct"] = int(m.group(1)), int(m.group(2))
                    continue
                m = DEPTH_RE.search(line)
                if m:
                    r["depth"] = int(m.group(1))
                    continue
                if line.startswith("Error:"):
                    if "Invariant" in line and "violated" in line:
                        r["violated"] = line.strip()
                    elif r["error"] is None and "behavior up to" not in line:
                        r["error"] = line.strip()
    return r


def model_check(module, consts, outdir, tag, parts, invariants=("TablesAgree",),
                edges=True, timeout=1800, xmx="3g", known=()):
    """Run `parts` TLC processes (one worker each, so that no edge line is lost),
    process k exploring the scenarios i with i % parts == k."""
    os.makedirs(outdir, exist_ok=True)

    def one(k):
        c = dict(consts, PartK=k, PartN=parts)
        cfg = os.path.join(outdir, "mc-%s-%d.cfg" % (tag, k))
        root = write_cfg(cfg, c, next_="NextP" if edges else "Next", invariants=invariants, known=known)
        rc, out = run_tlc(root, cfg, outdir, "%s-%d" % (tag, k), workers=1, xmx=xmx, timeout=timeout, cwd=outdir)
        res = parse_mc(out)
        res["rc"] = rc
        res["out"] = out
        return res

    with ThreadPoolExecutor(max_workers=min(parts, NCPU)) as ex:
        results = list(ex.map(one, range(parts)))
    tot = dict(generated=0, distinct=0, depth=0, scen={}, edges=[], errors=[], violated=[], outs=[], mv=[], nedges=0)
    for r in results:
        tot["generated"] += r["generated"]
        tot["distinct"] += r["distinct"]
        tot["depth"] = max(tot["depth"], r["depth"])
        tot["scen"].update(r["scen"])
        tot["edges"] += r["edges"]
        tot["nedges"] += r["nedges"]
        tot["mv"] += r["mv"]
        tot["outs"].append(r["out"])
        if r["violated"]:
            tot["violated"].append((r["violated"], r["out"]))
        elif r["rc"] != 0 or r["error"]:
            tot["errors"].append((r["error"] or "rc=%d" % r["rc"], r["out"]))
    return tot


# ------------------------------------------------------------ replay + validate
def write_inputs(path, scen, runs):
    with open(path, "w") as f:
        for sid in sorted({s for s, _ in runs}):
            f.write(json.dumps({"k": "scen", "id": sid, "scen": scen[sid]}) + "\n")
        for sid, h in runs:
            f.write(json.dumps({"k": "run", "scen": sid, "sched": h}) + "\n")


def run_harness(inp, out, timeout=1800):
    try:
        p = subprocess.run([HBIN, "run", inp, out], stdout=subprocess.PIPE, stderr=subprocess.PIPE, text=True,
                           timeout=timeout)
    except subprocess.TimeoutExpired:
        raise ToolError("harness timed out on " + inp)
    if p.returncode != 0:
        raise ToolError("harness failed on %s: rc=%d %s" % (inp, p.returncode, p.stderr[-2000:]))
    if "HARNESS-" in p.stderr:
        raise ToolError("harness error on %s: %s" % (inp, p.stderr[-2000:]))
    return json.loads(p.stdout.strip().splitlines()[-1])


VIOL_RE = re.compile(r'^<<"VIOL", "([^"]*)", "([^"]*)", (\d+), (\d+)>>')
DRIFT_RE = re.compile(r'^<<"DRIFT", (\d+), (\d+)>>')
TVSTAT_RE = re.compile(r'^<<"STATS", (\d+), (\d+), (\d+)>>')
HITS_RE = re.compile(r'^<<"HITS", "([^"]*)", (\d+), (\d+)>>')


def validate_trace(trace, outdir, tag, timeout=3600):
    rc, out = run_tlc("TraceHL.tla", os.path.join(SPEC, "TraceHL.cfg"), outdir, "tv-" + tag, workers=1,
                      xmx="3g", timeout=timeout, env_extra={"TRACE": trace},
                      java_opts="-Xss1g -XX:ParallelGCThreads=2 -Dtlc2.tool.queue.IStateQueue=StateDeque")
    res = dict(viol=[], drift=[], lines=0, execs=0, conform=0, ok=False, out=out, hits={}, ndrift=0)
    with open(out, errors="replace") as f:
        txt = f.read()
    for line in txt.splitlines():
        if line.startswith('"VIOL '):
            j = json.loads(json.loads(line)[5:])
            res["viol"].append((j["p"], j["s"], j["x"], j["ln"]))
            continue
        m = DRIFT_RE.match(line)
        if m:
            res["drift"].append((int(m.group(1)), int(m.group(2))))
            continue
        if line.startswith('<<"NDRIFT", '):
            res["ndrift"] = int(line.split(",")[1].strip(" >"))
            continue
        m = HITS_RE.match(line)
        if m:
            res["hits"][m.group(1)] = (int(m.group(2)), int(m.group(3)))
            continue
        m = TVSTAT_RE.match(line)
        if m:
            res["lines"], res["execs"], res["conform"] = int(m.group(1)), int(m.group(2)), int(m.group(3))
    res["ok"] = rc == 0 and "Model checking completed. No error has been found." in txt and res["execs"] > 0
    if not res["ok"]:
        raise ToolError("trace validation did not consume %s (see %s)" % (trace, out))
    return res


def replay_and_validate(scen, runs, outdir, tag, shard_runs=1500):
    """runs: list of (sid, sched).  Returns aggregated result with per-violation replay info."""
    os.makedirs(outdir, exist_ok=True)
    runs = sorted(runs, key=lambda r: (r[0], len(r[1]), r[1]))
    # few, large shards: every TLC start costs JIT warm-up CPU; ~20k runs (~600k events) per JVM at most
    nw = max(1, NCPU - 2)
    shard_runs = min(20000, max(shard_runs, -(-len(runs) // nw)))
    shards = [runs[i:i + shard_runs] for i in range(0, len(runs), shard_runs)]

    def one(i):
        inp = os.path.join(outdir, "in-%s-%d.ndjson" % (tag, i))
        tr = os.path.join(outdir, "tr-%s-%d.ndjson" % (tag, i))
        write_inputs(inp, scen, shards[i])
        h = run_harness(inp, tr)
        v = validate_trace(tr, outdir, "%s-%d" % (tag, i))
        return h, v, tr

    with ThreadPoolExecutor(max_workers=max(1, NCPU - 2)) as ex:
        parts = list(ex.map(one, range(len(shards))))
    agg = dict(runs=0, events=0, followed=0, execs=0, conform=0, viol=[], drift=[], traces=[], hits={}, ndrift=0)
    for i, (h, v, tr) in enumerate(parts):
        agg["runs"] += h["runs"]
        agg["events"] += h["events"]
        agg["followed"] += h["followed_exactly"]
        agg["execs"] += v["execs"]
        agg["conform"] += v["conform"]
        agg["ndrift"] += v["ndrift"]
        agg["traces"].append(tr)
        for p, (a, b) in v["hits"].items():
            o = agg["hits"].get(p, (0, 0))
            agg["hits"][p] = (o[0] + a, o[1] + b)
        for (p, s, x, ln) in v["viol"]:
            agg["viol"].append(dict(p=p, s=s, run=shards[i][x - 1], trace=tr, x=x, ln=ln))
        for (x, ln) in v["drift"]:
            agg["drift"].append(dict(run=shards[i][x - 1], trace=tr, x=x, ln=ln))
    if agg["execs"] != len(runs):
        raise ToolError("validated %d executions, expected %d" % (agg["execs"], len(runs)))
    return agg


def extract_exec(trace, x):
    """the event lines of execution number x (1-based) of a trace file"""
    out, n = [], 0
    with open(trace) as f:
        for line in f:
            if line.startswith('{"e":"hdr"'):
                n += 1
                if n > x:
                    break
            if n == x:
                out.append(json.loads(line))
    return out


# --------------------------------------------------------------- known findings
def load_known():
    p = os.path.join(VERIF, "known_findings.json")
    if not os.path.exists(p):
        return []
    return json.load(open(p))


def liveness_check(consts, outdir, tag, workers=8, timeout=2400):
    """C01 as a liveness property of the model (weak fairness, family without retrying collections)."""
    os.makedirs(outdir, exist_ok=True)
    cfg = os.path.join(outdir, "live-%s.cfg" % tag)
    root = write_cfg(cfg, dict(consts, PartK=0, PartN=1), init=None, invariants=())
    rc, out = run_tlc(root, cfg, outdir, "live-" + tag, workers=workers, xmx="12g", timeout=timeout, cwd=outdir)
    txt = open(out, errors="replace").read()
    m = STAT_RE.search(txt)
    ok = rc == 0 and "No error has been found" in txt
    return dict(ok=ok, states=int(m.group(2)) if m else 0, transitions=int(m.group(1)) if m else 0, out=out)


def stage2_suite_traces(outdir, timeout=2400):
    """Stage 2: run the repository's OWN test suite (one process per test, real parking_lot locks) with the
    cfg-gated recorder src/verif_hook.rs and validate every raw lock operation with spec/TraceRaw.tla.
    -> dict(viol=[(p, s, test index, line)], tests, events, skipped=reason|None)"""
    os.makedirs(outdir, exist_ok=True)
    if not os.path.exists(os.path.join(REPO, "src", "verif_hook.rs")):
        return dict(viol=[], tests=0, events=0, skipped="hook src/verif_hook.rs not present in /repo")
    if subprocess.run(["cargo", "nextest", "--version"], stdout=subprocess.PIPE, stderr=subprocess.PIPE).returncode != 0:
        return dict(viol=[], tests=0, events=0, skipped="cargo-nextest not available (one process per test is needed)")
    rawdir = os.path.join(outdir, "raw")
    shutil.rmtree(rawdir, ignore_errors=True)
    os.makedirs(rawdir)
    env = dict(os.environ, RUSTFLAGS="--cfg happylock_verif", HAPPYLOCK_VERIF_TRACE=os.path.join(rawdir, "t"),
               CARGO_TARGET_DIR=os.path.join(VERIF, "out", "stage2-target"), CARGO_NET_OFFLINE="true")
    try:
        p = subprocess.run(["cargo", "nextest", "run", "--workspace", "--offline", "--no-fail-fast", "--test-threads", "8"],
                           cwd=REPO, env=env, stdout=subprocess.PIPE, stderr=subprocess.STDOUT, text=True, timeout=timeout)
    except subprocess.TimeoutExpired:
        raise ToolError("stage 2: the repository's test suite timed out under the hook")
    # (a failing repository test is not our business here: the traces of whatever ran are validated)
    files = sorted(os.listdir(rawdir))
    trace = os.path.join(outdir, "raw.ndjson")
    events = 0
    with open(trace, "w") as out:
        for fn in files:
            ids, tids = {}, {}
            out.write('{"e":"new"}\n')
            for line in open(os.path.join(rawdir, fn)):
                try:
                    j = json.loads(line)
                except ValueError:
                    continue
                j["l"] = ids.setdefault(j["l"], len(ids) + 1)
                j["t"] = tids.setdefault(j["t"], len(tids) + 1)
                out.write(json.dumps(j) + "\n")
                events += 1
    if events == 0:
        return dict(viol=[], tests=len(files), events=0, skipped="the hooked suite produced no events (build output: %s)" % p.stdout[-400:])
    rc, tvout = run_tlc("TraceRaw.tla", os.path.join(SPEC, "TraceRaw.cfg"), outdir, "tvraw", workers=1, xmx="3g",
                        timeout=1800, env_extra={"TRACE": trace},
                        java_opts="-Xss1g -Dtlc2.tool.queue.IStateQueue=StateDeque")
    t = open(tvout, errors="replace").read()
    if rc != 0 or "No error has been found" not in t:
        raise ToolError("stage 2: trace validation failed: see " + tvout)
    viol = []
    for l in t.splitlines():
        if l.startswith('"VIOL '):
            j = json.loads(json.loads(l)[5:])
            viol.append((j["p"], j["s"], j["x"], j["ln"]))
    return dict(viol=viol, tests=len(files), events=events, skipped=None, trace=trace)


def known_mc_sigs():
    """signatures "<prop>|<sig>" of the known findings: the model (which reproduces the code
    as it is) is allowed to exhibit exactly these"""
    return sorted({"%s|%s" % (k["property"], k["sig"]) for k in load_known() if k.get("status") == "known"})


def repo_tree_hash():
    h = hashlib.sha256()
    for root, dirs, files in os.walk(REPO):
        dirs[:] = sorted(d for d in dirs if d not in ("target", ".git", "node_modules"))
        for fn in sorted(files):
            p = os.path.join(root, fn)
            try:
                h.update(p.encode())
                h.update(open(p, "rb").read())
            except OSError:
                pass
    return h.hexdigest()[:16]
