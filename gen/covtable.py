#!/usr/bin/env python3
"""Prints the measured-coverage table of DESIGN.md §0.7 from evidence/*.json."""
import json, os, sys
V = os.path.dirname(os.path.dirname(os.path.abspath(__file__)))
print("| id | corpora | TLC distinct states | executions validated against the code | executions exercising the rule | known findings re-observed | wall s |")
print("|---|---|---|---|---|---|---|")
for i in range(1, 18):
    pid = "C%02d" % i
    e = json.load(open(os.path.join(V, "evidence", pid + ".json")))
    c = e["coverage"]
    corp = c.get("corpora")
    if corp:
        names = []
        for k, v in corp.items():
            names.append(k + ("" if v.get("edge_cover_complete", True) else "*"))
        st2 = c.get("stage2_repository_suite")
        if st2 and not st2.get("skipped"):
            names.append("stage2(repo suite: %d tests)" % st2["test_processes"])
        ex = sum(v.get("executions_exercising_rule", v.get("rule_evaluations", 0)) or 0 for v in corp.values())
        label = ", ".join(names)
    else:
        label = "(typestate corpus)" if pid in ("C14", "C15") else "Values.tla histories"
        ex = c.get("distinct_nontrivial", 0)
    print("| %s | %s | %s | %s | %s | %d | %s |" % (pid, label, c.get("states"), c.get("traces_validated_against_impl"), ex,
                                                 len(c.get("known_findings_reobserved", [])), e.get("wall_s")))
