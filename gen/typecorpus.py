#!/usr/bin/env python3
"""C14 / C15: renders the programs enumerated by spec/Typestate.tla into Rust and
asks rustc (against the rlib built from /repo's working tree) for the verdict.

  must-compile program  : rustc must accept it
  must-reject program   : rustc must report an error whose primary span is on the
                          offending (last) statement line
  table row             : `is_send` / `is_sync` on a container x payload must be
                          accepted exactly when the standard library's rule says so
"""
import glob, json, os, re, subprocess, sys, time
from concurrent.futures import ThreadPoolExecutor

sys.path.insert(0, os.path.dirname(os.path.dirname(os.path.abspath(__file__))))
import vlib

PRELUDE = """#![allow(unused, clippy::all)]
use happylock::collection::{OwnedLockCollection, RefLockCollection, RetryingLockCollection};
use happylock::{LockCollection, Mutex, Poisonable, RwLock, ThreadKey};
use std::cell::Cell;
use std::rc::Rc;
fn is_send<T: Send>(_: &T) {}
fn is_sync<T: Sync>(_: &T) {}
"""

DECLS = """    let m1 = Mutex::new(0i32);
    let m2 = Mutex::new(0i32);
    let rw = RwLock::new(0i32);
    let ct = LockCollection::new((Mutex::new(0i32), Mutex::new(1i32)));
    let (ma, mb) = (Mutex::new(0i32), Mutex::new(1i32));
    let cv = LockCollection::try_new(vec![&ma, &mb]).unwrap();
    let rt = RetryingLockCollection::new([Mutex::new(0i32), Mutex::new(1i32)]);
    let ow = OwnedLockCollection::new((Mutex::new(0i32), Mutex::new(1i32)));
    let rfd = (Mutex::new(0i32), Mutex::new(1i32));
    let rf = RefLockCollection::new(&rfd);
    let pm = Poisonable::new(Mutex::new(0i32));
    let mut key = ThreadKey::get().unwrap();
"""

TUP = "(Mutex<i32>, Mutex<i32>)"
OBJ = {"m1": "m1", "rw_w": "rw", "rw_r": "rw", "ct": "ct", "cv": "cv", "rt": "rt", "ow": "ow", "rf": "rf", "pm": "pm"}
LOCK = {"rw_w": "write", "rw_r": "read"}
TRY = {"rw_w": "try_write", "rw_r": "try_read"}
UNLOCK = {
    "m1": "Mutex::unlock(g)", "rw_w": "RwLock::unlock_write(g)", "rw_r": "RwLock::unlock_read(g)",
    "ct": "LockCollection::<%s>::unlock(g)" % TUP, "cv": "LockCollection::<Vec<&Mutex<i32>>>::unlock(g)",
    "rt": "RetryingLockCollection::<[Mutex<i32>; 2]>::unlock(g)", "ow": "OwnedLockCollection::<%s>::unlock(g)" % TUP,
    "rf": "RefLockCollection::<%s>::unlock(g)" % TUP, "pm": "Poisonable::<Mutex<i32>>::unlock(g)",
}
READ_G = {"m1": "*g", "rw_w": "*g", "rw_r": "*g", "ct": "*g.0", "cv": "*g[0]", "rt": "*g[0]", "ow": "*g.0", "rf": "*g.0",
          "pm": "*g"}
REF_G = {"m1": "&*g", "rw_w": "&*g", "rw_r": "&*g", "ct": "&*g.0", "cv": "&*g[0]", "rt": "&*g[0]", "ow": "&*g.0",
         "rf": "&*g.0", "pm": "&*g"}
KEYFIELD = {"m1": "thread_key", "rw_w": "thread_key", "rw_r": "thread_key", "ct": "key", "cv": "key", "rt": "key",
            "ow": "key", "rf": "key", "pm": "key"}
SCOPED = {"m1": "scoped_lock", "rw_w": "scoped_write", "rw_r": "scoped_read", "ct": "scoped_lock", "cv": "scoped_lock",
          "rt": "scoped_lock", "ow": "scoped_lock", "rf": "scoped_lock", "pm": "scoped_lock"}
BODY = {"m1": "|d| { *d += 1; }", "rw_w": "|d| { *d += 1; }", "rw_r": "|d| { let _ = *d; }",
        "ct": "|mut d| { *d.0 += 1; }", "cv": "|mut d| { *d[0] += 1; }", "rt": "|mut d| { *d[0] += 1; }",
        "ow": "|mut d| { *d.0 += 1; }", "rf": "|mut d| { *d.0 += 1; }", "pm": "|d| { let _ = d.is_ok(); }"}
USE_R = {"m1": "*r += 1;", "rw_w": "*r += 1;", "rw_r": "let _ = *r;", "ct": "let _ = *r.0;", "cv": "let _ = *r[0];",
         "rt": "let _ = *r[0];", "ow": "let _ = *r.0;", "rf": "let _ = *r.0;", "pm": "let _ = r.is_ok();"}


def stmt(s):
    """-> (list of item-level lines, list of statement lines); the LAST statement line is the offending one"""
    k, x = s["k"], s["x"]
    o = OBJ.get(x, x)
    if k == "lock":
        if x == "pm":
            return [], ["let mut g = pm.lock(key).unwrap();"]
        return [], ["let mut g = %s.%s(key);" % (o, LOCK.get(x, "lock"))]
    if k == "try_lock":
        return [], ["let mut g = match %s.%s(key) { Ok(g) => g, Err(_) => return };" % (o, TRY.get(x, "try_lock"))]
    if k == "unlock":
        return [], ["let mut key = %s;" % UNLOCK[x]]
    if k == "dropg":
        return [], ["drop(g);"]
    if k == "useg":
        return [], ["let _v: i32 = %s;" % READ_G[x]]
    if k == "getkey":
        return [], ["let mut key = ThreadKey::get().unwrap();"]
    if k == "scoped_lent":
        return [], ["%s.%s(&mut key, %s);" % (o, SCOPED[x], BODY[x])]
    if k == "scoped_owned":
        return [], ["%s.%s(key, %s);" % (o, SCOPED[x], BODY[x])]
    # ---- never statements
    if k == "n_lock_moved_key":
        return [], ["let _g2 = m2.lock(key);"]
    if k == "n_nested_scoped_same_key":
        return [], ["m2.scoped_lock(&mut key, |_d| { %s.scoped_lock(&mut key, |_e| {}); });" % o]
    if k == "n_lock_in_scoped":
        return [], ["m2.scoped_lock(&mut key, |_d| { let _g = %s.lock(key); });" % o]
    if k == "n_spawn_key":
        return [], ["std::thread::spawn(move || { drop(key); });"]
    if k == "n_scope_spawn_key":
        return [], ["std::thread::scope(|s| { s.spawn(move || { drop(key); }); });"]
    if k == "n_share_key_lock":
        return [], ["std::thread::scope(|s| { let k = &mut key; s.spawn(move || { m2.scoped_lock(k, |_d| {}); }); });"]
    if k == "n_clone_key":
        return [], ["let _k2 = key.clone();"]
    if k == "n_copy_key":
        return [], ["let _a = key;", "let _b = key;"]
    if k == "n_lock_borrowed_key":
        return [], ["let _g = %s.lock(&mut key);" % o]
    if k == "n_lock_shared_ref_key":
        return [], ["let _g = %s.lock(&key);" % o]
    if k == "n_scoped_shared_ref_key":
        return [], ["%s.scoped_lock(&key, |_d| {});" % o]
    if k == "n_scoped_try_escape":
        st = {"m1": "scoped_try_lock", "rw_w": "scoped_try_write", "rw_r": "scoped_try_read"}.get(x, "scoped_try_lock")
        return [], ["let r = %s.%s(&mut key, |d| d).ok().unwrap();" % (o, st), USE_R[x]]
    if k == "n_clone_hold":
        if x == "mutexref":
            return [], ["let g = ct.lock(key);", "let _h: happylock::mutex::MutexRef<'_, i32, _> = Clone::clone(&g.0);"]
        pre = "let owr = OwnedLockCollection::new((RwLock::new(0i32), RwLock::new(1i32)));"
        if x == "readref":
            return [], [pre, "let g = owr.read(key);",
                        "let _h: happylock::rwlock::RwLockReadRef<'_, i32, _> = Clone::clone(&g.0);"]
        return [], [pre, "let g = owr.lock(key);",
                    "let _h: happylock::rwlock::RwLockWriteRef<'_, i32, _> = Clone::clone(&g.0);"]
    if k == "n_clone_guard":
        ty = {"m1": "happylock::mutex::MutexGuard<'_, i32, _>", "rw_r": "happylock::rwlock::RwLockReadGuard<'_, i32, _>",
              "rw_w": "happylock::rwlock::RwLockWriteGuard<'_, i32, _>", "ct": "happylock::collection::LockGuard<_>",
              "pm": "happylock::poisonable::PoisonGuard<'_, _>"}[x]
        lock = {"m1": "m1.lock(key)", "rw_r": "rw.read(key)", "rw_w": "rw.write(key)", "ct": "ct.lock(key)",
                "pm": "pm.lock(key).unwrap()"}[x]
        return [], ["let g = %s;" % lock, "let _h: %s = Clone::clone(&g);" % ty]
    if k == "n_guard_map":
        ty = {"m1": "happylock::mutex::MutexGuard", "rw_w": "happylock::rwlock::RwLockWriteGuard",
              "rw_r": "happylock::rwlock::RwLockReadGuard", "pm": "happylock::poisonable::PoisonGuard"}.get(x, "happylock::collection::LockGuard")
        return [], ["let mut stash = None; let _rest = %s::map(g, |holds| { stash = Some(holds); });" % ty]
    if k == "n_hold_field":
        f = {"m1": "mutex", "rw_w": "rwlock", "rw_r": "rwlock"}.get(x, "guard")
        return [], ["let _h = g.%s;" % f]
    if k == "n_destructure_guard":
        ty = {"m1": "happylock::mutex::MutexGuard", "rw_w": "happylock::rwlock::RwLockWriteGuard",
              "rw_r": "happylock::rwlock::RwLockReadGuard", "pm": "happylock::poisonable::PoisonGuard"}.get(x, "happylock::collection::LockGuard")
        return [], ["let %s { .. } = g; let %s { %s: _k, .. } = g;" % (ty, ty, KEYFIELD[x])]
    if k == "n_write_through_read_guard":
        return [], ["*g += 1;"]
    if k == "n_key_default":
        return [], ["let _k: ThreadKey = Default::default();"]
    if k == "n_key_from_thread":
        return [], ["let _k2 = std::thread::spawn(|| ThreadKey::get().unwrap()).join().unwrap();"]
    if k == "n_guard_from_thread":
        return [], ["let _g2 = std::thread::scope(|s| s.spawn(|| m2.lock(ThreadKey::get().unwrap())).join().unwrap());"]
    if k == "n_key_in_static":
        return ["static KEYSLOT: std::sync::Mutex<Option<ThreadKey>> = std::sync::Mutex::new(None);"], []
    if k == "n_write_in_scoped_read":
        if x == "rw_r":
            return [], ["rw.scoped_read(&mut key, |d| { *d += 1; });"]
        return [], ["let owr = OwnedLockCollection::new((RwLock::new(0i32), RwLock::new(1i32)));",
                    "owr.scoped_read(&mut key, |d| { *d.0 += 1; });"]
    if k == "n_guard_field":
        return [], ["let _k = g.%s;" % KEYFIELD[x]]
    if k == "n_scope_spawn_guard":
        return [], ["std::thread::scope(|s| { s.spawn(move || { drop(g); }); });"]
    if k == "n_ref_outlives_guard":
        return [], ["let r = %s;" % REF_G[x], "drop(g); let _ = format!(\"{:?}\", r);"]
    if k == "n_move_hold_out":
        return [], ["let _a = g.0;"]
    if k == "n_take_holds":
        return [], ["let _stolen = std::mem::take(&mut *g);"]
    if k == "n_forge_key":
        return [], ["let _k = ThreadKey { phantom: std::marker::PhantomData };"]
    if k == "n_impl_keyable":
        return ["struct Fake;", "unsafe impl happylock::Keyable for Fake {}"], []
    if k == "n_impl_sealed":
        return ["struct Fake;", "impl happylock::key::sealed::Sealed for Fake {}"], []
    if k == "n_guard_outlives_lock":
        if x == "m1":
            return [], ["let g;", "{ let mx = Mutex::new(0i32); g = mx.lock(key); }", "let _v = *g;"]
        return [], ["let g;", "{ let cx = LockCollection::new((Mutex::new(0i32), Mutex::new(0i32))); g = cx.lock(key); }",
                    "let _v = *g.0;"]
    if k == "n_new_with_refs":
        ty = {"boxed": "LockCollection", "retry": "RetryingLockCollection", "owned": "OwnedLockCollection"}[x]
        return [], ["let _c = %s::new((&m1, &m1));" % ty]
    if k == "n_new_ref_with_refs":
        return [], ["let t = (&m1, &m1);", "let _c = LockCollection::new_ref(&t);"]
    if k == "n_ref_new_with_refs":
        return [], ["let t = (&m1, &m1);", "let _c = RefLockCollection::new(&t);"]
    if k == "n_owned_child":
        return [], ["let _c = ow.child();"]
    if k == "n_owned_as_ref":
        return [], ["let _r: &%s = ow.as_ref();" % TUP]
    if k == "n_owned_iter":
        return [], ["let owa = OwnedLockCollection::new([Mutex::new(0i32), Mutex::new(1i32)]);", "for _m in &owa {}"]
    if k == "n_unsafe_new_unchecked":
        if x == "ref":
            return [], ["let t = (&m1, &m1);", "let _c = RefLockCollection::new_unchecked(&t);"]
        ty = {"boxed": "LockCollection", "retry": "RetryingLockCollection"}[x]
        return [], ["let _c = %s::new_unchecked((&m1, &m1));" % ty]
    if k == "n_unsafe_raw":
        return [], ["let _r = m1.raw();"]
    if k == "n_unsafe_guard":
        return [], ["let _g = happylock::lockable::Lockable::guard(&m1);"]
    if k == "n_unsafe_data_mut":
        return [], ["let _d = happylock::lockable::Lockable::data_mut(&m1);"]
    if k == "n_unsafe_read_guard":
        return [], ["let _g = happylock::lockable::Sharable::read_guard(&rw);"]
    if k == "n_unsafe_raw_lock":
        return [], ["happylock::lockable::RawLock::raw_write(&m1);"]
    if k == "n_scoped_escape":
        body = "|d| d"
        return [], ["let r = %s.%s(&mut key, %s);" % (o, SCOPED[x], body), USE_R[x]]
    raise ValueError(k)


C14_CLASSES = {"n_lock_moved_key", "n_nested_scoped_same_key", "n_lock_in_scoped", "n_spawn_key", "n_scope_spawn_key",
               "n_share_key_lock", "n_clone_key", "n_copy_key", "n_lock_borrowed_key", "n_lock_shared_ref_key",
               "n_guard_field", "n_scope_spawn_guard", "n_move_hold_out", "n_take_holds", "n_forge_key",
               "n_impl_keyable", "n_impl_sealed", "n_scoped_shared_ref_key", "n_clone_hold", "n_clone_guard",
               "n_hold_field", "n_destructure_guard", "n_guard_map", "n_key_default", "n_key_from_thread", "n_guard_from_thread",
               "n_key_in_static"}


def render_prog(p):
    items, lines = [], []
    off_first = off_last = None
    n = len(p["stmts"])
    for i, s in enumerate(p["stmts"]):
        it, ls = stmt(s)
        if i == n - 1 and p["expect"] == "reject":
            off_items = (len(items), len(items) + len(it))
            off_first = len(lines)
            off_last = len(lines) + len(ls)
        items += it
        lines += ls
    src = PRELUDE
    item_base = src.count("\n") + 1
    src += "".join(x + "\n" for x in items)
    src += "fn main() {\n" + DECLS
    stmt_base = src.count("\n") + 1
    src += "".join("    " + x + "\n" for x in lines)
    src += "}\n"
    off = None
    if p["expect"] == "reject":
        if off_last > off_first:
            off = (stmt_base + off_first, stmt_base + off_last - 1)
        else:
            off = (item_base + off_items[0], item_base + off_items[1] - 1)
    return src, off


PAY = {"i32": "0i32", "cell": "Cell::new(0i32)", "rc": "Rc::new(0i32)"}


def render_table(r):
    P = PAY[r["p"]]
    c = r["c"]
    L = "RwLock" if "rwlock" in c else "Mutex"
    two = "[%s::new(%s), %s::new(%s)]" % (L, P, L, P)
    pre = []
    if c in ("mutex", "rwlock"):
        pre = ["let x = %s::new(%s);" % (L, P)]
    elif c.startswith("boxed_"):
        pre = ["let x = LockCollection::new(%s);" % two]
    elif c.startswith("retry_"):
        pre = ["let x = RetryingLockCollection::new(%s);" % two]
    elif c.startswith("owned_"):
        pre = ["let x = OwnedLockCollection::new(%s);" % two]
    elif c.startswith("ref_"):
        pre = ["let d = %s;" % two, "let x = RefLockCollection::new(&d);"]
    elif c.startswith("pois_"):
        pre = ["let x = Poisonable::new(%s::new(%s));" % (L, P)]
    elif c == "mutex_guard":
        pre = ["let m = Mutex::new(%s);" % P, "let key = ThreadKey::get().unwrap();", "let x = m.lock(key);"]
    elif c == "rwlock_read_guard":
        pre = ["let m = RwLock::new(%s);" % P, "let key = ThreadKey::get().unwrap();", "let x = m.read(key);"]
    elif c == "rwlock_write_guard":
        pre = ["let m = RwLock::new(%s);" % P, "let key = ThreadKey::get().unwrap();", "let x = m.write(key);"]
    elif c == "coll_guard":
        pre = ["let c = LockCollection::new([Mutex::new(%s), Mutex::new(%s)]);" % (P, P),
               "let key = ThreadKey::get().unwrap();", "let x = c.lock(key);"]
    else:
        raise ValueError(c)
    src = PRELUDE + "fn main() {\n" + "".join("    " + x + "\n" for x in pre)
    line = src.count("\n") + 1
    src += "    is_%s(&x);\n}\n" % r["op"]
    return src, ((line, line) if r["expect"] == "reject" else None)


def find_rlibs():
    deps = os.path.join(vlib.HARNESS, "target", "release", "deps")
    hl = sorted(glob.glob(os.path.join(deps, "libhappylock-*.rlib")), key=os.path.getmtime)
    if not hl:
        raise vlib.ToolError("no happylock rlib (harness not built?)")
    return deps, hl[-1]


def rustc(src_path, deps, rlib):
    p = subprocess.run(["rustc", "--edition", "2021", "--emit=metadata", "--error-format=json", "-A", "warnings",
                        "--extern", "happylock=" + rlib, "-L", "dependency=" + deps, "-o",
                        src_path[:-3] + ".rmeta", src_path],
                       stdout=subprocess.PIPE, stderr=subprocess.PIPE, text=True, timeout=300)
    errs = []
    for line in p.stderr.splitlines():
        try:
            j = json.loads(line)
        except ValueError:
            continue
        if j.get("level") == "error" and j.get("spans"):
            prim = [s for s in j["spans"] if s.get("is_primary")] or j["spans"]
            code = (j.get("code") or {}).get("code", "")
            errs.append((prim[0]["line_start"], code, j.get("message", "")[:160]))
        elif j.get("level") == "error" and "aborting" not in j.get("message", ""):
            errs.append((0, (j.get("code") or {}).get("code", ""), j.get("message", "")[:160]))
    try:
        os.remove(src_path[:-3] + ".rmeta")
    except OSError:
        pass
    return p.returncode == 0, errs


def enumerate_programs(outdir, thorough=False):
    """run TLC on Typestate.tla in both modes; -> (programs, table rows, tlc stats)"""
    progs, table, stats = {}, {}, dict(states=0, transitions=0)
    cfgs = ("Typestate_full3.cfg", "Typestate_abs.cfg") if thorough else ("Typestate_full.cfg", "Typestate_abs.cfg")
    for cfg in cfgs:
        rc, out = vlib.run_tlc("Typestate.tla", os.path.join(vlib.SPEC, cfg), outdir, "ts-" + cfg[10:-4], workers=1,
                               xmx="2g", timeout=600)
        txt = open(out, errors="replace").read()
        if rc != 0 or "No error has been found" not in txt:
            raise vlib.ToolError("TLC failed on Typestate (%s): see %s" % (cfg, out))
        m = vlib.STAT_RE.search(txt)
        if m:
            stats["transitions"] += int(m.group(1))
            stats["states"] += int(m.group(2))
        for line in txt.splitlines():
            if line.startswith('"PROG '):
                j = json.loads(json.loads(line)[5:])
                j["stmts"] = list(j["stmts"])
                progs[json.dumps(j, sort_keys=True)] = j
            elif line.startswith('"TABLE '):
                j = json.loads(json.loads(line)[6:])
                table[json.dumps(j, sort_keys=True)] = j
    return list(progs.values()), list(table.values()), stats


def run(outdir, thorough=False):
    """-> dict(results=[...], stats)   result: dict(kind, prog/row, expect, verdict, ok, errs, src)"""
    os.makedirs(outdir, exist_ok=True)
    progs, table, stats = enumerate_programs(outdir, thorough)
    deps, rlib = find_rlibs()
    jobs = []
    for i, p in enumerate(progs):
        src, off = render_prog(p)
        jobs.append(("prog", p, src, off, os.path.join(outdir, "p%04d.rs" % i)))
    for i, r in enumerate(table):
        src, off = render_table(r)
        jobs.append(("table", r, src, off, os.path.join(outdir, "t%04d.rs" % i)))

    def one(job):
        kind, spec, src, off, path = job
        open(path, "w").write(src)
        ok, errs = rustc(path, deps, rlib)
        expect = spec["expect"]
        res = dict(kind=kind, spec=spec, expect=expect, accepted=ok, errs=errs[:3], path=path, off=off)
        if expect == "ok":
            res["agree"] = ok
            res["why"] = "" if ok else "must-compile program rejected"
        else:
            if ok:
                res["agree"] = False
                res["why"] = "must-reject program accepted"
            else:
                at = [e for e in errs if off[0] <= e[0] <= off[1]]
                res["agree"] = bool(at)
                res["why"] = "" if at else "rejected, but not at the offending line (renderer problem)"
        if res["agree"]:
            os.remove(path)
        return res

    with ThreadPoolExecutor(max_workers=vlib.NCPU) as ex:
        results = list(ex.map(one, jobs))
    return dict(results=results, stats=stats, nprogs=len(progs), ntable=len(table))


if __name__ == "__main__":
    vlib.build_harness()
    t0 = time.time()
    r = run(os.path.join(vlib.VERIF, "out", "types-dev"))
    bad = [x for x in r["results"] if not x["agree"]]
    print("programs", r["nprogs"], "table", r["ntable"], "disagreements", len(bad), "in", round(time.time() - t0, 1), "s")
    for b in bad:
        print(b["why"], json.dumps(b["spec"]), b["errs"][:1], b["path"])
