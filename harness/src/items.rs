//! Thin delegating types that let ONE Rust type realise every size,
//! arrangement, kind mix and nesting of the scenario language through the
//! library's own `Vec`, collection, `utils` and poisonable code.

use happylock::collection::{
	BoxedLockCollection, OwnedLockCollection, RefLockCollection, RetryingLockCollection,
};
use happylock::lockable::{Lockable, OwnedLockable, RawLock, Sharable};
use happylock::mutex::{Mutex, MutexRef};
use happylock::poisonable::{PoisonRef, PoisonResult, Poisonable};
use happylock::rwlock::{RwLock, RwLockReadRef, RwLockWriteRef};

use crate::sched::{VMutexRaw, VRwRaw};

#[derive(Debug)]
pub struct Payload {
	pub lid: usize,
	pub val: u64,
}

pub type VMutex = Mutex<Payload, VMutexRaw>;
pub type VRwLock = RwLock<Payload, VRwRaw>;

// ------------------------------------------------------------------- leaves

pub enum Leaf {
	M(VMutex),
	R(VRwLock),
}

impl std::fmt::Debug for Leaf {
	fn fmt(&self, f: &mut std::fmt::Formatter<'_>) -> std::fmt::Result {
		match self {
			Leaf::M(x) => x.fmt(f),
			Leaf::R(x) => x.fmt(f),
		}
	}
}

unsafe impl RawLock for Leaf {
	fn poison(&self) {
		match self {
			Leaf::M(x) => x.poison(),
			Leaf::R(x) => x.poison(),
		}
	}
	unsafe fn raw_write(&self) {
		match self {
			Leaf::M(x) => x.raw_write(),
			Leaf::R(x) => x.raw_write(),
		}
	}
	unsafe fn raw_try_write(&self) -> bool {
		match self {
			Leaf::M(x) => x.raw_try_write(),
			Leaf::R(x) => x.raw_try_write(),
		}
	}
	unsafe fn raw_unlock_write(&self) {
		match self {
			Leaf::M(x) => x.raw_unlock_write(),
			Leaf::R(x) => x.raw_unlock_write(),
		}
	}
	unsafe fn raw_read(&self) {
		match self {
			Leaf::M(x) => x.raw_read(),
			Leaf::R(x) => x.raw_read(),
		}
	}
	unsafe fn raw_try_read(&self) -> bool {
		match self {
			Leaf::M(x) => x.raw_try_read(),
			Leaf::R(x) => x.raw_try_read(),
		}
	}
	unsafe fn raw_unlock_read(&self) {
		match self {
			Leaf::M(x) => x.raw_unlock_read(),
			Leaf::R(x) => x.raw_unlock_read(),
		}
	}
}

pub enum LeafGuard<'g> {
	M(MutexRef<'g, Payload, VMutexRaw>),
	W(RwLockWriteRef<'g, Payload, VRwRaw>),
}

impl LeafGuard<'_> {
	pub fn get(&mut self) -> &mut Payload {
		match self {
			LeafGuard::M(g) => &mut *g,
			LeafGuard::W(g) => &mut *g,
		}
	}
}

pub enum LeafRGuard<'g> {
	R(RwLockReadRef<'g, Payload, VRwRaw>),
}

impl LeafRGuard<'_> {
	pub fn get(&self) -> &Payload {
		match self {
			LeafRGuard::R(g) => g,
		}
	}
}

unsafe impl Lockable for Leaf {
	type Guard<'g>
		= LeafGuard<'g>
	where
		Self: 'g;
	type DataMut<'a>
		= &'a mut Payload
	where
		Self: 'a;

	fn get_ptrs<'a>(&'a self, ptrs: &mut Vec<&'a dyn RawLock>) {
		match self {
			Leaf::M(x) => x.get_ptrs(ptrs),
			Leaf::R(x) => x.get_ptrs(ptrs),
		}
	}
	unsafe fn guard(&self) -> Self::Guard<'_> {
		match self {
			Leaf::M(x) => LeafGuard::M(x.guard()),
			Leaf::R(x) => LeafGuard::W(x.guard()),
		}
	}
	unsafe fn data_mut(&self) -> Self::DataMut<'_> {
		match self {
			Leaf::M(x) => x.data_mut(),
			Leaf::R(x) => x.data_mut(),
		}
	}
}

unsafe impl Sharable for Leaf {
	type ReadGuard<'g>
		= LeafRGuard<'g>
	where
		Self: 'g;
	type DataRef<'a>
		= &'a Payload
	where
		Self: 'a;

	unsafe fn read_guard(&self) -> Self::ReadGuard<'_> {
		match self {
			Leaf::M(_) => panic!("harness: shared access to a Mutex leaf"),
			Leaf::R(x) => LeafRGuard::R(x.read_guard()),
		}
	}
	unsafe fn data_ref(&self) -> Self::DataRef<'_> {
		match self {
			Leaf::M(_) => panic!("harness: shared access to a Mutex leaf"),
			Leaf::R(x) => x.data_ref(),
		}
	}
}

unsafe impl OwnedLockable for Leaf {}
// `Item` may wrap shared references, so this is a promise made by the scenario generator, not by the
// type: the constructors that rely on ownership for duplicate-freedom (`new`, `From`, `collect()`) are
// only ever called on member lists the specification has derived to be duplicate-free.
unsafe impl OwnedLockable for Item {}

// -------------------------------------------------------------------- items

pub type OwnedU = OwnedLockCollection<Vec<&'static mut Leaf>>;
pub type Boxed = BoxedLockCollection<Vec<Item>>;
pub type RefC = RefLockCollection<'static, Vec<Item>>;
pub type Retry = RetryingLockCollection<Vec<Item>>;
pub type Pois = Poisonable<Item>;

pub enum Item {
	L(&'static Leaf),
	O(&'static OwnedU),
	B(&'static Boxed),
	F(&'static RefC),
	T(&'static Retry),
	P(&'static Pois),
}

impl std::fmt::Debug for Item {
	fn fmt(&self, f: &mut std::fmt::Formatter<'_>) -> std::fmt::Result {
		match self {
			Item::L(x) => x.fmt(f),
			Item::O(x) => x.fmt(f),
			Item::B(x) => x.fmt(f),
			Item::F(x) => x.fmt(f),
			Item::T(x) => x.fmt(f),
			Item::P(x) => x.fmt(f),
		}
	}
}

macro_rules! delegate {
	($self:ident, $x:ident => $e:expr) => {
		match $self {
			Item::L($x) => $e,
			Item::O($x) => $e,
			Item::B($x) => $e,
			Item::F($x) => $e,
			Item::T($x) => $e,
			Item::P($x) => $e,
		}
	};
}

unsafe impl RawLock for Item {
	fn poison(&self) {
		delegate!(self, x => x.poison())
	}
	unsafe fn raw_write(&self) {
		delegate!(self, x => x.raw_write())
	}
	unsafe fn raw_try_write(&self) -> bool {
		delegate!(self, x => x.raw_try_write())
	}
	unsafe fn raw_unlock_write(&self) {
		delegate!(self, x => x.raw_unlock_write())
	}
	unsafe fn raw_read(&self) {
		delegate!(self, x => x.raw_read())
	}
	unsafe fn raw_try_read(&self) -> bool {
		delegate!(self, x => x.raw_try_read())
	}
	unsafe fn raw_unlock_read(&self) {
		delegate!(self, x => x.raw_unlock_read())
	}
}

pub enum ItemGuard<'g> {
	L(LeafGuard<'g>),
	O(Box<[LeafGuard<'g>]>),
	C(Box<[ItemGuard<'g>]>),
	P(Box<PoisonResult<PoisonRef<'g, ItemGuard<'g>>>>),
}

pub enum ItemRGuard<'g> {
	L(LeafRGuard<'g>),
	O(Box<[LeafRGuard<'g>]>),
	C(Box<[ItemRGuard<'g>]>),
	P(Box<PoisonResult<PoisonRef<'g, ItemRGuard<'g>>>>),
}

pub enum ItemData<'a> {
	L(&'a mut Payload),
	O(Box<[&'a mut Payload]>),
	C(Box<[ItemData<'a>]>),
	P(Box<PoisonResult<ItemData<'a>>>),
}

pub enum ItemRData<'a> {
	L(&'a Payload),
	O(Box<[&'a Payload]>),
	C(Box<[ItemRData<'a>]>),
	P(Box<PoisonResult<ItemRData<'a>>>),
}

unsafe impl Lockable for Item {
	type Guard<'g>
		= ItemGuard<'g>
	where
		Self: 'g;
	type DataMut<'a>
		= ItemData<'a>
	where
		Self: 'a;

	fn get_ptrs<'a>(&'a self, ptrs: &mut Vec<&'a dyn RawLock>) {
		delegate!(self, x => x.get_ptrs(ptrs))
	}
	unsafe fn guard(&self) -> Self::Guard<'_> {
		match self {
			Item::L(x) => ItemGuard::L(x.guard()),
			Item::O(x) => ItemGuard::O(x.guard()),
			Item::B(x) => ItemGuard::C(x.guard()),
			Item::F(x) => ItemGuard::C(x.guard()),
			Item::T(x) => ItemGuard::C(x.guard()),
			Item::P(x) => ItemGuard::P(Box::new(x.guard())),
		}
	}
	unsafe fn data_mut(&self) -> Self::DataMut<'_> {
		match self {
			Item::L(x) => ItemData::L(x.data_mut()),
			Item::O(x) => ItemData::O(x.data_mut()),
			Item::B(x) => ItemData::C(x.data_mut()),
			Item::F(x) => ItemData::C(x.data_mut()),
			Item::T(x) => ItemData::C(x.data_mut()),
			Item::P(x) => ItemData::P(Box::new(x.data_mut())),
		}
	}
}

unsafe impl Sharable for Item {
	type ReadGuard<'g>
		= ItemRGuard<'g>
	where
		Self: 'g;
	type DataRef<'a>
		= ItemRData<'a>
	where
		Self: 'a;

	unsafe fn read_guard(&self) -> Self::ReadGuard<'_> {
		match self {
			Item::L(x) => ItemRGuard::L(x.read_guard()),
			Item::O(x) => ItemRGuard::O(x.read_guard()),
			Item::B(x) => ItemRGuard::C(x.read_guard()),
			Item::F(x) => ItemRGuard::C(x.read_guard()),
			Item::T(x) => ItemRGuard::C(x.read_guard()),
			Item::P(x) => ItemRGuard::P(Box::new(x.read_guard())),
		}
	}
	unsafe fn data_ref(&self) -> Self::DataRef<'_> {
		match self {
			Item::L(x) => ItemRData::L(x.data_ref()),
			Item::O(x) => ItemRData::O(x.data_ref()),
			Item::B(x) => ItemRData::C(x.data_ref()),
			Item::F(x) => ItemRData::C(x.data_ref()),
			Item::T(x) => ItemRData::C(x.data_ref()),
			Item::P(x) => ItemRData::P(Box::new(x.data_ref())),
		}
	}
}

// ---------------------------------------------------- position-path accessors
// A poisonable wrapper adds no path element; `poisoned` reports whether any
// wrapper on the way handed out Err.

impl ItemGuard<'_> {
	pub fn at(&mut self, pos: &[usize]) -> Option<&mut Payload> {
		match self {
			ItemGuard::L(g) => pos.is_empty().then(|| g.get()),
			ItemGuard::O(gs) => {
				let (&i, rest) = pos.split_first()?;
				if !rest.is_empty() {
					return None;
				}
				gs.get_mut(i - 1).map(|g| g.get())
			}
			ItemGuard::C(gs) => {
				let (&i, rest) = pos.split_first()?;
				gs.get_mut(i - 1)?.at(rest)
			}
			ItemGuard::P(r) => match &mut **r {
				Ok(g) => g.at(pos),
				Err(e) => e.get_mut().at(pos),
			},
		}
	}
	/// Ok/Err verdicts of the poisonable wrappers below, depth first (wrapper before content)
	pub fn poison_list(&self, out: &mut Vec<bool>) {
		match self {
			ItemGuard::L(_) | ItemGuard::O(_) => {}
			ItemGuard::C(gs) => gs.iter().for_each(|g| g.poison_list(out)),
			ItemGuard::P(r) => match &**r {
				Ok(g) => {
					out.push(false);
					g.poison_list(out)
				}
				Err(e) => {
					out.push(true);
					e.get_ref().poison_list(out)
				}
			},
		}
	}
}

impl ItemRGuard<'_> {
	pub fn at(&self, pos: &[usize]) -> Option<&Payload> {
		match self {
			ItemRGuard::L(g) => pos.is_empty().then(|| g.get()),
			ItemRGuard::O(gs) => {
				let (&i, rest) = pos.split_first()?;
				if !rest.is_empty() {
					return None;
				}
				gs.get(i - 1).map(|g| g.get())
			}
			ItemRGuard::C(gs) => {
				let (&i, rest) = pos.split_first()?;
				gs.get(i - 1)?.at(rest)
			}
			ItemRGuard::P(r) => match &**r {
				Ok(g) => g.at(pos),
				Err(e) => e.get_ref().at(pos),
			},
		}
	}
	/// Ok/Err verdicts of the poisonable wrappers below, depth first (wrapper before content)
	pub fn poison_list(&self, out: &mut Vec<bool>) {
		match self {
			ItemRGuard::L(_) | ItemRGuard::O(_) => {}
			ItemRGuard::C(gs) => gs.iter().for_each(|g| g.poison_list(out)),
			ItemRGuard::P(r) => match &**r {
				Ok(g) => {
					out.push(false);
					g.poison_list(out)
				}
				Err(e) => {
					out.push(true);
					e.get_ref().poison_list(out)
				}
			},
		}
	}
}

impl ItemData<'_> {
	pub fn at(&mut self, pos: &[usize]) -> Option<&mut Payload> {
		match self {
			ItemData::L(g) => pos.is_empty().then_some(&mut **g),
			ItemData::O(gs) => {
				let (&i, rest) = pos.split_first()?;
				if !rest.is_empty() {
					return None;
				}
				gs.get_mut(i - 1).map(|g| &mut **g)
			}
			ItemData::C(gs) => {
				let (&i, rest) = pos.split_first()?;
				gs.get_mut(i - 1)?.at(rest)
			}
			ItemData::P(r) => match &mut **r {
				Ok(g) => g.at(pos),
				Err(e) => e.get_mut().at(pos),
			},
		}
	}
	/// Ok/Err verdicts of the poisonable wrappers below, depth first (wrapper before content)
	pub fn poison_list(&self, out: &mut Vec<bool>) {
		match self {
			ItemData::L(_) | ItemData::O(_) => {}
			ItemData::C(gs) => gs.iter().for_each(|g| g.poison_list(out)),
			ItemData::P(r) => match &**r {
				Ok(g) => {
					out.push(false);
					g.poison_list(out)
				}
				Err(e) => {
					out.push(true);
					e.get_ref().poison_list(out)
				}
			},
		}
	}
}

impl ItemRData<'_> {
	pub fn at(&self, pos: &[usize]) -> Option<&Payload> {
		match self {
			ItemRData::L(g) => pos.is_empty().then_some(&**g),
			ItemRData::O(gs) => {
				let (&i, rest) = pos.split_first()?;
				if !rest.is_empty() {
					return None;
				}
				gs.get(i - 1).map(|g| &**g)
			}
			ItemRData::C(gs) => {
				let (&i, rest) = pos.split_first()?;
				gs.get(i - 1)?.at(rest)
			}
			ItemRData::P(r) => match &**r {
				Ok(g) => g.at(pos),
				Err(e) => e.get_ref().at(pos),
			},
		}
	}
	/// Ok/Err verdicts of the poisonable wrappers below, depth first (wrapper before content)
	pub fn poison_list(&self, out: &mut Vec<bool>) {
		match self {
			ItemRData::L(_) | ItemRData::O(_) => {}
			ItemRData::C(gs) => gs.iter().for_each(|g| g.poison_list(out)),
			ItemRData::P(r) => match &**r {
				Ok(g) => {
					out.push(false);
					g.poison_list(out)
				}
				Err(e) => {
					out.push(true);
					e.get_ref().poison_list(out)
				}
			},
		}
	}
}
