//! Deterministic scheduler and verification raw locks (`VRaw`).
//!
//! Virtual threads are real OS threads, but exactly one of them runs at a
//! time: a thread parks in front of every raw lock operation (and at explicit
//! scheduling points) and continues only when the driver grants it.  The
//! driver applies the operation's effect to its owner table, appends the
//! event to the trace and resumes that thread only.  All events are appended
//! under the scheduler mutex by the only running thread, so the trace is a
//! total order by construction.

use std::cell::Cell;
use std::sync::{Condvar, Mutex};

#[derive(Clone, Copy, Debug, PartialEq, Eq)]
pub enum OpKind {
	Start,
	Yield,
	Lock,
	Try,
	Unlock,
}

#[derive(Clone, Copy, Debug, PartialEq, Eq)]
pub struct Pending {
	pub op: OpKind,
	pub lock: usize, // leaf id (slot index), 0 for Start/Yield
	pub shared: bool,
}

#[derive(Clone, Copy, Debug, PartialEq, Eq)]
pub enum Outcome {
	Done(bool), // operation performed; bool = try result
	Fault,      // injected panic instead of the operation's effect
}

#[derive(Clone, Copy, Debug, PartialEq, Eq)]
enum Status {
	NotStarted,
	Running,
	Parked(Pending),
	Finished,
}

#[derive(Clone, Debug)]
pub enum FaultPlan {
	None,
	OneShot { at: u64 },
	Persist { lock: usize, ops: Vec<String> },
}

pub struct World {
	status: Vec<Status>,       // index = thread id (1-based, 0 unused)
	outcome: Vec<Outcome>,     // outcome of the last granted op
	pub hw: Vec<usize>,        // exclusive holder per leaf (0 = none)
	pub hr: Vec<Vec<u32>>,     // shared hold count per leaf per thread
	pub writer_pref: bool,     // "WP" policy
	pub trace: Vec<String>,    // ndjson event lines
	pub abort: bool,           // tear-down mode: every raw op is an unlogged no-op
	pub faults: FaultPlan,
	pub nops: u64,             // global raw-op counter (1-based index of the next op)
	pub registry: Vec<(usize, usize, usize)>, // (start, end, leaf id)
	pub steps: u64,
}

static WORLD: Mutex<Option<World>> = Mutex::new(None);
static CV: Condvar = Condvar::new();

thread_local! {
	static VT: Cell<usize> = const { Cell::new(0) };
}

pub struct FaultPanic;

pub fn current_vt() -> usize {
	VT.with(|v| v.get())
}

fn with_world<R>(f: impl FnOnce(&mut World) -> R) -> R {
	let mut g = WORLD.lock().unwrap_or_else(|e| e.into_inner());
	f(g.as_mut().expect("no world installed"))
}

pub fn install(nthreads: usize, nleaves: usize, writer_pref: bool, faults: FaultPlan) {
	let w = World {
		status: vec![Status::NotStarted; nthreads + 1],
		outcome: vec![Outcome::Done(true); nthreads + 1],
		hw: vec![0; nleaves + 1],
		hr: vec![vec![0; nthreads + 1]; nleaves + 1],
		writer_pref,
		trace: Vec::new(),
		abort: false,
		faults,
		nops: 0,
		registry: Vec::new(),
		steps: 0,
	};
	*WORLD.lock().unwrap_or_else(|e| e.into_inner()) = Some(w);
}

pub fn uninstall() -> World {
	WORLD
		.lock()
		.unwrap_or_else(|e| e.into_inner())
		.take()
		.expect("no world")
}

pub fn register(start: usize, len: usize, id: usize) {
	with_world(|w| w.registry.push((start, start + len, id)));
}

/// Append an event line (suppressed during tear-down).
pub fn log(line: String) {
	with_world(|w| {
		if !w.abort {
			w.trace.push(line)
		}
	});
}

pub fn aborting() -> bool {
	with_world(|w| w.abort)
}

fn mode_str(shared: bool) -> &'static str {
	if shared {
		"r"
	} else {
		"w"
	}
}

/// Called by a virtual thread: park in front of `p` until granted.
pub fn park(p: Pending) -> Outcome {
	let me = current_vt();
	assert!(me != 0, "raw lock operation outside a virtual thread");
	let mut g = WORLD.lock().unwrap_or_else(|e| e.into_inner());
	{
		let w = g.as_mut().expect("no world");
		if w.abort {
			return Outcome::Done(true);
		}
		if p.op == OpKind::Lock {
			w.trace.push(format!(
				"{{\"e\":\"req\",\"t\":{},\"l\":{},\"m\":\"{}\"}}",
				me,
				p.lock,
				mode_str(p.shared)
			));
		}
		w.status[me] = Status::Parked(p);
	}
	CV.notify_all();
	loop {
		g = CV.wait(g).unwrap_or_else(|e| e.into_inner());
		let w = g.as_mut().expect("no world");
		if w.status[me] == Status::Running {
			return w.outcome[me];
		}
	}
}

pub fn thread_begin(id: usize) {
	VT.with(|v| v.set(id));
	park(Pending {
		op: OpKind::Start,
		lock: 0,
		shared: false,
	});
	log(format!("{{\"e\":\"start\",\"t\":{}}}", id));
}

pub fn thread_end(id: usize) {
	{
		let mut g = WORLD.lock().unwrap_or_else(|e| e.into_inner());
		let w = g.as_mut().expect("no world");
		if !w.abort {
			w.trace.push(format!("{{\"e\":\"done\",\"t\":{}}}", id));
		}
		w.status[id] = Status::Finished;
	}
	CV.notify_all();
}

pub fn yield_point() {
	park(Pending {
		op: OpKind::Yield,
		lock: 0,
		shared: false,
	});
}

fn lookup(w: &World, addr: usize) -> usize {
	for &(s, e, id) in &w.registry {
		if addr >= s && addr < e {
			return id;
		}
	}
	panic!("raw lock at {addr:#x} is not registered");
}

/// A raw lock operation issued by the code under test.
pub fn raw_op(addr: usize, op: OpKind, shared: bool) -> bool {
	let id = with_world(|w| lookup(w, addr));
	match park(Pending {
		op,
		lock: id,
		shared,
	}) {
		Outcome::Done(b) => b,
		Outcome::Fault => std::panic::panic_any(FaultPanic),
	}
}

// ---------------------------------------------------------------- driver side

impl World {
	fn nthreads(&self) -> usize {
		self.status.len() - 1
	}

	fn pending_writer_other(&self, t: usize, l: usize) -> bool {
		(1..=self.nthreads()).any(|u| {
			u != t
				&& matches!(self.status[u], Status::Parked(Pending { op: OpKind::Lock, lock, shared: false }) if lock == l)
		})
	}

	fn free_for(&self, t: usize, l: usize, shared: bool) -> bool {
		if shared {
			self.hw[l] == 0 && (!self.writer_pref || !self.pending_writer_other(t, l))
		} else {
			self.hw[l] == 0 && self.hr[l].iter().all(|&c| c == 0)
		}
	}

	fn enabled(&self, t: usize) -> bool {
		match self.status[t] {
			Status::Parked(p) => match p.op {
				OpKind::Lock => self.free_for(t, p.lock, p.shared),
				_ => true,
			},
			_ => false,
		}
	}

	fn fault_hits(&self, p: &Pending) -> bool {
		match &self.faults {
			FaultPlan::None => false,
			FaultPlan::OneShot { at } => self.nops == *at,
			FaultPlan::Persist { lock, ops } => {
				*lock == p.lock
					&& ops.iter().any(|o| match (o.as_str(), p.op) {
						("lock", OpKind::Lock) | ("try", OpKind::Try) | ("unlock", OpKind::Unlock) => true,
						_ => false,
					})
			}
		}
	}

	/// Apply the pending operation of `t` and mark it running.
	fn grant(&mut self, t: usize) {
		let Status::Parked(p) = self.status[t] else {
			panic!("grant of non-parked thread")
		};
		self.steps += 1;
		let m = mode_str(p.shared);
		let mut out = Outcome::Done(true);
		match p.op {
			OpKind::Start | OpKind::Yield => {}
			OpKind::Lock | OpKind::Try | OpKind::Unlock => {
				self.nops += 1;
				if self.fault_hits(&p) {
					let opn = match p.op {
						OpKind::Lock => "lock",
						OpKind::Try => "try",
						_ => "unlock",
					};
					self.trace.push(format!(
						"{{\"e\":\"rawpanic\",\"t\":{},\"l\":{},\"m\":\"{}\",\"op\":\"{}\"}}",
						t, p.lock, m, opn
					));
					out = Outcome::Fault;
				} else {
					match p.op {
						OpKind::Lock => {
							if p.shared {
								self.hr[p.lock][t] += 1
							} else {
								self.hw[p.lock] = t
							}
							self.trace.push(format!(
								"{{\"e\":\"acq\",\"t\":{},\"l\":{},\"m\":\"{}\"}}",
								t, p.lock, m
							));
						}
						OpKind::Try => {
							let ok = self.free_for(t, p.lock, p.shared);
							if ok {
								if p.shared {
									self.hr[p.lock][t] += 1
								} else {
									self.hw[p.lock] = t
								}
							}
							self.trace.push(format!(
								"{{\"e\":\"try\",\"t\":{},\"l\":{},\"m\":\"{}\",\"ok\":{}}}",
								t, p.lock, m, ok
							));
							out = Outcome::Done(ok);
						}
						OpKind::Unlock => {
							// the owner table is only updated for holds that exist; the
							// monitor keeps its own table and judges the release
							if p.shared {
								if self.hr[p.lock][t] > 0 {
									self.hr[p.lock][t] -= 1
								}
							} else if self.hw[p.lock] == t {
								self.hw[p.lock] = 0
							}
							self.trace.push(format!(
								"{{\"e\":\"rel\",\"t\":{},\"l\":{},\"m\":\"{}\"}}",
								t, p.lock, m
							));
						}
						_ => unreachable!(),
					}
				}
			}
		}
		self.outcome[t] = out;
		self.status[t] = Status::Running;
	}

	fn quiescent(&self) -> bool {
		(1..=self.nthreads()).all(|t| !matches!(self.status[t], Status::Running | Status::NotStarted))
	}

	fn all_finished(&self) -> bool {
		(1..=self.nthreads()).all(|t| self.status[t] == Status::Finished)
	}
}

fn wait_quiescent() {
	let mut g = WORLD.lock().unwrap_or_else(|e| e.into_inner());
	loop {
		if g.as_ref().expect("no world").quiescent() {
			return;
		}
		g = CV.wait(g).unwrap_or_else(|e| e.into_inner());
	}
}

/// Try to run one step of thread `t`; false if it is not enabled.
fn step(t: usize) -> bool {
	{
		let mut g = WORLD.lock().unwrap_or_else(|e| e.into_inner());
		let w = g.as_mut().expect("no world");
		if t == 0 || t > w.nthreads() || !w.enabled(t) {
			return false;
		}
		w.grant(t);
	}
	CV.notify_all();
	wait_quiescent();
	true
}

pub struct RunResult {
	pub followed: usize,
	pub deadlock: bool,
	pub budget: bool,
}

/// Drive the installed world: follow `prefix` adaptively, then run to block
/// (lowest runnable thread first) until everybody is finished or stuck.
pub fn drive(prefix: &[usize], budget: u64) -> RunResult {
	wait_quiescent();
	let mut followed = 0;
	for &t in prefix {
		if step(t) {
			followed += 1;
		}
	}
	let mut over = false;
	loop {
		let (n, steps) = with_world(|w| (w.nthreads(), w.steps));
		if steps > budget {
			over = true;
			break;
		}
		let mut progressed = false;
		for t in 1..=n {
			if step(t) {
				progressed = true;
				break;
			}
		}
		if !progressed {
			break;
		}
	}
	let finished = with_world(|w| w.all_finished());
	if finished {
		with_world(|w| w.trace.push("{\"e\":\"end\"}".to_string()));
		return RunResult {
			followed,
			deadlock: false,
			budget: false,
		};
	}
	// stuck (or over budget): record it, then tear down one thread at a time
	with_world(|w| {
		w.trace.push(if over {
			"{\"e\":\"budget\"}".to_string()
		} else {
			"{\"e\":\"deadlock\"}".to_string()
		});
		w.abort = true;
	});
	loop {
		let next = with_world(|w| {
			(1..=w.nthreads()).find(|&t| matches!(w.status[t], Status::Parked(_)))
		});
		let Some(t) = next else { break };
		with_world(|w| {
			w.outcome[t] = Outcome::Done(true);
			w.status[t] = Status::Running;
		});
		CV.notify_all();
		// in abort mode the thread never parks again: wait until it is finished
		let mut g = WORLD.lock().unwrap_or_else(|e| e.into_inner());
		while g.as_ref().expect("no world").status[t] != Status::Finished {
			g = CV.wait(g).unwrap_or_else(|e| e.into_inner());
		}
	}
	RunResult {
		followed,
		deadlock: !over,
		budget: over,
	}
}

// ------------------------------------------------------------------ raw locks

pub struct VMutexRaw {
	_pad: u8,
}

unsafe impl lock_api::RawMutex for VMutexRaw {
	#[allow(clippy::declare_interior_mutable_const)]
	const INIT: Self = VMutexRaw { _pad: 0 };
	type GuardMarker = lock_api::GuardSend;

	fn lock(&self) {
		raw_op(self as *const _ as usize, OpKind::Lock, false);
	}
	fn try_lock(&self) -> bool {
		raw_op(self as *const _ as usize, OpKind::Try, false)
	}
	unsafe fn unlock(&self) {
		raw_op(self as *const _ as usize, OpKind::Unlock, false);
	}
}

pub struct VRwRaw {
	_pad: u8,
}

unsafe impl lock_api::RawRwLock for VRwRaw {
	#[allow(clippy::declare_interior_mutable_const)]
	const INIT: Self = VRwRaw { _pad: 0 };
	type GuardMarker = lock_api::GuardSend;

	fn lock_shared(&self) {
		raw_op(self as *const _ as usize, OpKind::Lock, true);
	}
	fn try_lock_shared(&self) -> bool {
		raw_op(self as *const _ as usize, OpKind::Try, true)
	}
	unsafe fn unlock_shared(&self) {
		raw_op(self as *const _ as usize, OpKind::Unlock, true);
	}
	fn lock_exclusive(&self) {
		raw_op(self as *const _ as usize, OpKind::Lock, false);
	}
	fn try_lock_exclusive(&self) -> bool {
		raw_op(self as *const _ as usize, OpKind::Try, false)
	}
	unsafe fn unlock_exclusive(&self) {
		raw_op(self as *const _ as usize, OpKind::Unlock, false);
	}
}
