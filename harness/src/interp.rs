//! Builds a scenario out of real happylock objects and interprets the
//! per-thread programs against the real public API.

use std::panic::{catch_unwind, AssertUnwindSafe};

use happylock::collection::{
	BoxedLockCollection, LockGuard, OwnedLockCollection, RefLockCollection, RetryingLockCollection,
};
use happylock::lockable::Lockable;
use happylock::mutex::MutexGuard;
use happylock::poisonable::{PoisonGuard, PoisonResult, Poisonable, TryLockPoisonableError};
use happylock::rwlock::{RwLockReadGuard, RwLockWriteGuard};
use happylock::{Keyable, ThreadKey};

use crate::items::*;
use crate::scen::*;
use crate::sched::{self, VMutexRaw, VRwRaw};

pub struct UserPanic;

pub enum SlotStore {
	Empty,
	L(Leaf),
	O(OwnedU),
}

#[derive(Clone, Copy)]
pub enum CollObj {
	Invalid,
	Single(&'static Leaf),
	Owned(&'static OwnedU),
	Boxed(&'static Boxed),
	Ref(&'static RefC),
	Retry(&'static Retry),
	Pois(&'static Pois),
}

pub struct Built {
	pub colls: Vec<CollObj>,
	cleanup: Vec<Box<dyn FnOnce()>>,
}

// the built world is handed to the virtual threads by reference
unsafe impl Sync for Built {}
unsafe impl Send for Built {}

fn leak<T: 'static>(cleanup: &mut Vec<Box<dyn FnOnce()>>, v: T) -> &'static T {
	let p: *mut T = Box::into_raw(Box::new(v));
	let addr = p as usize;
	cleanup.push(Box::new(move || unsafe { drop(Box::from_raw(addr as *mut T)) }));
	unsafe { &*p }
}

pub fn build(sc: &Scen) -> Built {
	let n = sc.arena.len();
	let mut cleanup: Vec<Box<dyn FnOnce()>> = Vec::new();
	let store: Vec<SlotStore> = (0..n).map(|_| SlotStore::Empty).collect();
	let base: *mut SlotStore = Box::into_raw(store.into_boxed_slice()) as *mut SlotStore;
	{
		let b = base as usize;
		cleanup.push(Box::new(move || unsafe {
			drop(Box::from_raw(std::ptr::slice_from_raw_parts_mut(b as *mut SlotStore, n)))
		}));
	}
	// leaves first
	for (i, s) in sc.arena.iter().enumerate() {
		let p = Payload { lid: i + 1, val: 0 };
		let leaf = match s.k.as_str() {
			"M" => Leaf::M(VMutex::new(p)),
			"R" => Leaf::R(VRwLock::new(p)),
			_ => continue,
		};
		unsafe {
			base.add(i).write(SlotStore::L(leaf));
			if let SlotStore::L(l) = &*base.add(i) {
				sched::register(l as *const Leaf as usize, std::mem::size_of::<Leaf>(), i + 1);
			}
		}
	}
	// owned units over private leaves (listing order as given)
	for (i, s) in sc.arena.iter().enumerate() {
		if s.k != "O" {
			continue;
		}
		let members: Vec<&'static mut Leaf> = s
			.ms
			.iter()
			.map(|&m| unsafe {
				match &mut *base.add(m - 1) {
					SlotStore::L(l) => &mut *(l as *mut Leaf),
					_ => panic!("unit member is not a leaf"),
				}
			})
			.collect();
		unsafe { base.add(i).write(SlotStore::O(OwnedLockCollection::new(members))) };
	}
	let leaf_at = |s: usize| -> &'static Leaf {
		unsafe {
			match &*base.add(s - 1) {
				SlotStore::L(l) => &*(l as *const Leaf),
				_ => panic!("slot {s} is not a leaf"),
			}
		}
	};
	let unit_at = |s: usize| -> &'static OwnedU {
		unsafe {
			match &*base.add(s - 1) {
				SlotStore::O(o) => &*(o as *const OwnedU),
				_ => panic!("slot {s} is not a unit"),
			}
		}
	};
	let mut colls: Vec<CollObj> = Vec::new();
	for (ci, co) in sc.colls.iter().enumerate() {
		let mut ok = true;
		let mut items: Vec<Item> = Vec::new();
		for it in &co.items {
			if it.c != 0 {
				match colls[it.c - 1] {
					CollObj::Invalid => ok = false,
					CollObj::Single(l) => items.push(Item::L(l)),
					CollObj::Owned(o) => items.push(Item::O(o)),
					CollObj::Boxed(b) => items.push(Item::B(b)),
					CollObj::Ref(r) => items.push(Item::F(r)),
					CollObj::Retry(r) => items.push(Item::T(r)),
					CollObj::Pois(p) => items.push(Item::P(p)),
				}
			} else if sc.arena[it.s - 1].k == "O" {
				items.push(Item::O(unit_at(it.s)));
			} else {
				items.push(Item::L(leaf_at(it.s)));
			}
		}
		let obj = if !ok {
			CollObj::Invalid
		} else {
			match co.kind.as_str() {
				"single" => match items.pop() {
					Some(Item::L(l)) => CollObj::Single(l),
					_ => panic!("single over a non-leaf"),
				},
				"owned" => match items.pop() {
					Some(Item::O(o)) => CollObj::Owned(o),
					_ => panic!("owned over a non-unit"),
				},
				"boxed" => {
					let c = match co.ctor.as_str() {
						"unchecked" => Some(unsafe { Boxed::new_unchecked(items) }),
						// the scenario generator only uses the unchecked-by-ownership constructors on duplicate-free lists
						"new" => Some(Boxed::new(items)),
						"from" => Some(Boxed::from(items)),
						"from_iter" => Some(items.into_iter().collect::<Boxed>()),
						_ => Boxed::try_new(items),
					};
					match c {
						Some(c) => CollObj::Boxed(leak(&mut cleanup, c)),
						None => CollObj::Invalid,
					}
				}
				"ref" => {
					let v: &'static Vec<Item> = leak(&mut cleanup, items);
					let c = match co.ctor.as_str() {
						"unchecked" => Some(unsafe { RefC::new_unchecked(v) }),
						"new" => Some(RefC::new(v)),
						"from" => Some(RefC::from(v)),
						_ => RefC::try_new(v),
					};
					match c {
						Some(c) => CollObj::Ref(leak(&mut cleanup, c)),
						None => CollObj::Invalid,
					}
				}
				"retry" => {
					let c = match co.ctor.as_str() {
						"unchecked" => Some(unsafe { Retry::new_unchecked(items) }),
						"new" => Some(Retry::new(items)),
						"from" => Some(Retry::from(items)),
						"from_iter" => Some(items.into_iter().collect::<Retry>()),
						_ => Retry::try_new(items),
					};
					match c {
						Some(c) => CollObj::Retry(leak(&mut cleanup, c)),
						None => CollObj::Invalid,
					}
				}
				"pois" => CollObj::Pois(leak(&mut cleanup, Poisonable::new(items.pop().unwrap()))),
				k => panic!("unknown collection kind {k}"),
			}
		};
		if co.ctor == "try_new" && matches!(co.kind.as_str(), "boxed" | "ref" | "retry") {
			sched::log(format!(
				"{{\"e\":\"ctor\",\"c\":{},\"kind\":\"{}\",\"some\":{}}}",
				ci + 1,
				co.kind,
				!matches!(obj, CollObj::Invalid)
			));
		}
		colls.push(obj);
	}
	Built { colls, cleanup }
}

impl Built {
	pub fn teardown(self) {
		for f in self.cleanup.into_iter().rev() {
			f()
		}
	}
}

// --------------------------------------------------------------- guard flavour

pub enum Held {
	MG(MutexGuard<'static, Payload, VMutexRaw>),
	WG(RwLockWriteGuard<'static, Payload, VRwRaw>),
	RG(RwLockReadGuard<'static, Payload, VRwRaw>),
	OW(LockGuard<Box<[LeafGuard<'static>]>>),
	OR(LockGuard<Box<[LeafRGuard<'static>]>>),
	CW(u8, LockGuard<Box<[ItemGuard<'static>]>>),
	CR(u8, LockGuard<Box<[ItemRGuard<'static>]>>),
	PW(PoisonGuard<'static, ItemGuard<'static>>),
	PR(PoisonGuard<'static, ItemRGuard<'static>>),
}

/// uniform access to the protected data behind a guard or closure argument
pub trait Acc {
	/// (lock id stored in the payload, value seen, value left)
	fn touch(&mut self, pos: &[usize], write: bool) -> Option<(usize, u64, u64)>;
	/// Ok/Err verdicts of the poisonable wrappers reached, depth first
	fn poison_list(&self, out: &mut Vec<bool>);
}

fn touch_mut(p: &mut Payload, write: bool) -> (usize, u64, u64) {
	let seen = p.val;
	if write {
		p.val = seen + 1;
	}
	(p.lid, seen, p.val)
}
fn touch_ref(p: &Payload) -> (usize, u64, u64) {
	(p.lid, p.val, p.val)
}

fn slice_at<'a, T>(s: &'a mut [T], pos: &[usize]) -> Option<(&'a mut T, Vec<usize>)> {
	let (&i, rest) = pos.split_first()?;
	if i == 0 {
		return None;
	}
	s.get_mut(i - 1).map(|x| (x, rest.to_vec()))
}
fn slice_at_ref<'a, T>(s: &'a [T], pos: &[usize]) -> Option<(&'a T, Vec<usize>)> {
	let (&i, rest) = pos.split_first()?;
	if i == 0 {
		return None;
	}
	s.get(i - 1).map(|x| (x, rest.to_vec()))
}

impl Acc for Held {
	fn touch(&mut self, pos: &[usize], write: bool) -> Option<(usize, u64, u64)> {
		match self {
			Held::MG(g) => pos.is_empty().then(|| touch_mut(&mut *g, write)),
			Held::WG(g) => pos.is_empty().then(|| touch_mut(&mut *g, write)),
			Held::RG(g) => pos.is_empty().then(|| touch_ref(g)),
			Held::OW(g) => {
				let (x, rest) = slice_at(&mut g[..], pos)?;
				rest.is_empty().then(|| touch_mut(x.get(), write))
			}
			Held::OR(g) => {
				let (x, rest) = slice_at_ref(&g[..], pos)?;
				rest.is_empty().then(|| touch_ref(x.get()))
			}
			Held::CW(_, g) => {
				let (x, rest) = slice_at(&mut g[..], pos)?;
				x.at(&rest).map(|p| touch_mut(p, write))
			}
			Held::CR(_, g) => {
				let (x, rest) = slice_at_ref(&g[..], pos)?;
				x.at(&rest).map(touch_ref)
			}
			Held::PW(g) => {
				let ig: &mut ItemGuard<'static> = g.as_mut();
				ig.at(pos).map(|p| touch_mut(p, write))
			}
			Held::PR(g) => {
				let ig: &ItemRGuard<'static> = g.as_ref();
				ig.at(pos).map(touch_ref)
			}
		}
	}
	fn poison_list(&self, out: &mut Vec<bool>) {
		self.poison_list_inner(out)
	}
}

impl Held {
	fn poison_list_inner(&self, out: &mut Vec<bool>) {
		match self {
			Held::CW(_, g) => g.iter().for_each(|x| x.poison_list(out)),
			Held::CR(_, g) => g.iter().for_each(|x| x.poison_list(out)),
			Held::PW(g) => {
				let ig: &ItemGuard<'static> = g.as_ref();
				ig.poison_list(out)
			}
			Held::PR(g) => {
				let ig: &ItemRGuard<'static> = g.as_ref();
				ig.poison_list(out)
			}
			_ => {}
		}
	}

	fn unlock(self) -> ThreadKey {
		match self {
			Held::MG(g) => VMutex::unlock(g),
			Held::WG(g) => VRwLock::unlock_write(g),
			Held::RG(g) => VRwLock::unlock_read(g),
			Held::OW(g) => OwnedU::unlock(g),
			Held::OR(g) => OwnedU::unlock_read(g),
			Held::CW(0, g) => Boxed::unlock(g),
			Held::CW(1, g) => RefC::unlock(g),
			Held::CW(_, g) => Retry::unlock(g),
			Held::CR(0, g) => Boxed::unlock_read(g),
			Held::CR(1, g) => RefC::unlock_read(g),
			Held::CR(_, g) => Retry::unlock_read(g),
			Held::PW(g) => Pois::unlock(g),
			Held::PR(g) => Pois::unlock_read(g),
		}
	}
}

enum Acquired {
	Got(Held, bool), // guard, poisoned
	WouldBlock(ThreadKey),
}

fn pois_w(r: PoisonResult<PoisonGuard<'static, ItemGuard<'static>>>) -> Acquired {
	match r {
		Ok(g) => Acquired::Got(Held::PW(g), false),
		Err(e) => Acquired::Got(Held::PW(e.into_inner()), true),
	}
}
fn pois_r(r: PoisonResult<PoisonGuard<'static, ItemRGuard<'static>>>) -> Acquired {
	match r {
		Ok(g) => Acquired::Got(Held::PR(g), false),
		Err(e) => Acquired::Got(Held::PR(e.into_inner()), true),
	}
}

fn try_to<G>(r: Result<G, ThreadKey>, f: impl FnOnce(G) -> Held) -> Acquired {
	match r {
		Ok(g) => Acquired::Got(f(g), false),
		Err(k) => Acquired::WouldBlock(k),
	}
}

fn acquire(obj: CollObj, api: &str, key: ThreadKey) -> Acquired {
	use Acquired::Got;
	match (obj, api) {
		(CollObj::Single(Leaf::M(m)), "lock") => Got(Held::MG(m.lock(key)), false),
		(CollObj::Single(Leaf::M(m)), "try_lock") => try_to(m.try_lock(key), Held::MG),
		(CollObj::Single(Leaf::R(r)), "lock") => Got(Held::WG(r.write(key)), false),
		(CollObj::Single(Leaf::R(r)), "try_lock") => try_to(r.try_write(key), Held::WG),
		(CollObj::Single(Leaf::R(r)), "read") => Got(Held::RG(r.read(key)), false),
		(CollObj::Single(Leaf::R(r)), "try_read") => try_to(r.try_read(key), Held::RG),
		(CollObj::Owned(o), "lock") => Got(Held::OW(o.lock(key)), false),
		(CollObj::Owned(o), "try_lock") => try_to(o.try_lock(key), Held::OW),
		(CollObj::Owned(o), "read") => Got(Held::OR(o.read(key)), false),
		(CollObj::Owned(o), "try_read") => try_to(o.try_read(key), Held::OR),
		(CollObj::Boxed(c), "lock") => Got(Held::CW(0, c.lock(key)), false),
		(CollObj::Boxed(c), "try_lock") => try_to(c.try_lock(key), |g| Held::CW(0, g)),
		(CollObj::Boxed(c), "read") => Got(Held::CR(0, c.read(key)), false),
		(CollObj::Boxed(c), "try_read") => try_to(c.try_read(key), |g| Held::CR(0, g)),
		(CollObj::Ref(c), "lock") => Got(Held::CW(1, c.lock(key)), false),
		(CollObj::Ref(c), "try_lock") => try_to(c.try_lock(key), |g| Held::CW(1, g)),
		(CollObj::Ref(c), "read") => Got(Held::CR(1, c.read(key)), false),
		(CollObj::Ref(c), "try_read") => try_to(c.try_read(key), |g| Held::CR(1, g)),
		(CollObj::Retry(c), "lock") => Got(Held::CW(2, c.lock(key)), false),
		(CollObj::Retry(c), "try_lock") => try_to(c.try_lock(key), |g| Held::CW(2, g)),
		(CollObj::Retry(c), "read") => Got(Held::CR(2, c.read(key)), false),
		(CollObj::Retry(c), "try_read") => try_to(c.try_read(key), |g| Held::CR(2, g)),
		(CollObj::Pois(p), "lock") => pois_w(p.lock(key)),
		(CollObj::Pois(p), "read") => pois_r(p.read(key)),
		(CollObj::Pois(p), "try_lock") => match p.try_lock(key) {
			Ok(g) => Got(Held::PW(g), false),
			Err(TryLockPoisonableError::Poisoned(e)) => Got(Held::PW(e.into_inner()), true),
			Err(TryLockPoisonableError::WouldBlock(k)) => Acquired::WouldBlock(k),
		},
		(CollObj::Pois(p), "try_read") => match p.try_read(key) {
			Ok(g) => Got(Held::PR(g), false),
			Err(TryLockPoisonableError::Poisoned(e)) => Got(Held::PR(e.into_inner()), true),
			Err(TryLockPoisonableError::WouldBlock(k)) => Acquired::WouldBlock(k),
		},
		(_, a) => panic!("harness: api {a} not applicable"),
	}
}

// -------------------------------------------------------------- scoped flavour

enum SData<'a> {
	M(&'a mut Payload),
	MR(&'a Payload),
	O(Box<[&'a mut Payload]>),
	OR(Box<[&'a Payload]>),
	C(Box<[ItemData<'a>]>),
	CR(Box<[ItemRData<'a>]>),
	P(bool, ItemData<'a>),
	PR(bool, ItemRData<'a>),
}

impl Acc for SData<'_> {
	fn touch(&mut self, pos: &[usize], write: bool) -> Option<(usize, u64, u64)> {
		match self {
			SData::M(p) => pos.is_empty().then(|| touch_mut(p, write)),
			SData::MR(p) => pos.is_empty().then(|| touch_ref(p)),
			SData::O(v) => {
				let (x, rest) = slice_at(&mut v[..], pos)?;
				rest.is_empty().then(|| touch_mut(x, write))
			}
			SData::OR(v) => {
				let (x, rest) = slice_at_ref(&v[..], pos)?;
				rest.is_empty().then(|| touch_ref(x))
			}
			SData::C(v) => {
				let (x, rest) = slice_at(&mut v[..], pos)?;
				x.at(&rest).map(|p| touch_mut(p, write))
			}
			SData::CR(v) => {
				let (x, rest) = slice_at_ref(&v[..], pos)?;
				x.at(&rest).map(touch_ref)
			}
			SData::P(_, d) => d.at(pos).map(|p| touch_mut(p, write)),
			SData::PR(_, d) => d.at(pos).map(touch_ref),
		}
	}
	fn poison_list(&self, out: &mut Vec<bool>) {
		match self {
			SData::C(v) => v.iter().for_each(|x| x.poison_list(out)),
			SData::CR(v) => v.iter().for_each(|x| x.poison_list(out)),
			SData::P(e, d) => {
				out.push(*e);
				d.poison_list(out)
			}
			SData::PR(e, d) => {
				out.push(*e);
				d.poison_list(out)
			}
			_ => {}
		}
	}
}

/// Result of a scoped call: Ok(poisoned) or the key handed back by a failed try.
fn scoped<K: Keyable>(
	obj: CollObj,
	api: &str,
	key: K,
	body: &dyn Fn(&mut dyn Acc),
) -> Result<bool, K> {
	macro_rules! blocking {
		($call:expr) => {{
			$call;
			Ok(false)
		}};
	}
	macro_rules! trying {
		($call:expr) => {
			$call.map(|_| false)
		};
	}
	match (obj, api) {
		(CollObj::Single(Leaf::M(m)), "scoped_lock") => {
			blocking!(m.scoped_lock(key, |d| body(&mut SData::M(d))))
		}
		(CollObj::Single(Leaf::M(m)), "scoped_try_lock") => {
			trying!(m.scoped_try_lock(key, |d| body(&mut SData::M(d))))
		}
		(CollObj::Single(Leaf::R(r)), "scoped_lock") => {
			blocking!(r.scoped_write(key, |d| body(&mut SData::M(d))))
		}
		(CollObj::Single(Leaf::R(r)), "scoped_try_lock") => {
			trying!(r.scoped_try_write(key, |d| body(&mut SData::M(d))))
		}
		(CollObj::Single(Leaf::R(r)), "scoped_read") => {
			blocking!(r.scoped_read(key, |d| body(&mut SData::MR(d))))
		}
		(CollObj::Single(Leaf::R(r)), "scoped_try_read") => {
			trying!(r.scoped_try_read(key, |d| body(&mut SData::MR(d))))
		}
		(CollObj::Owned(o), "scoped_lock") => blocking!(o.scoped_lock(key, |d| body(&mut SData::O(d)))),
		(CollObj::Owned(o), "scoped_try_lock") => {
			trying!(o.scoped_try_lock(key, |d| body(&mut SData::O(d))))
		}
		(CollObj::Owned(o), "scoped_read") => blocking!(o.scoped_read(key, |d| body(&mut SData::OR(d)))),
		(CollObj::Owned(o), "scoped_try_read") => {
			trying!(o.scoped_try_read(key, |d| body(&mut SData::OR(d))))
		}
		(CollObj::Boxed(c), "scoped_lock") => blocking!(c.scoped_lock(key, |d| body(&mut SData::C(d)))),
		(CollObj::Boxed(c), "scoped_try_lock") => {
			trying!(c.scoped_try_lock(key, |d| body(&mut SData::C(d))))
		}
		(CollObj::Boxed(c), "scoped_read") => blocking!(c.scoped_read(key, |d| body(&mut SData::CR(d)))),
		(CollObj::Boxed(c), "scoped_try_read") => {
			trying!(c.scoped_try_read(key, |d| body(&mut SData::CR(d))))
		}
		(CollObj::Ref(c), "scoped_lock") => blocking!(c.scoped_lock(key, |d| body(&mut SData::C(d)))),
		(CollObj::Ref(c), "scoped_try_lock") => {
			trying!(c.scoped_try_lock(key, |d| body(&mut SData::C(d))))
		}
		(CollObj::Ref(c), "scoped_read") => blocking!(c.scoped_read(key, |d| body(&mut SData::CR(d)))),
		(CollObj::Ref(c), "scoped_try_read") => {
			trying!(c.scoped_try_read(key, |d| body(&mut SData::CR(d))))
		}
		(CollObj::Retry(c), "scoped_lock") => blocking!(c.scoped_lock(key, |d| body(&mut SData::C(d)))),
		(CollObj::Retry(c), "scoped_try_lock") => {
			trying!(c.scoped_try_lock(key, |d| body(&mut SData::C(d))))
		}
		(CollObj::Retry(c), "scoped_read") => blocking!(c.scoped_read(key, |d| body(&mut SData::CR(d)))),
		(CollObj::Retry(c), "scoped_try_read") => {
			trying!(c.scoped_try_read(key, |d| body(&mut SData::CR(d))))
		}
		(CollObj::Pois(p), "scoped_lock") => Ok(p.scoped_lock(key, |d| match d {
			Ok(d) => {
				body(&mut SData::P(false, d));
				false
			}
			Err(e) => {
				body(&mut SData::P(true, e.into_inner()));
				true
			}
		})),
		(CollObj::Pois(p), "scoped_try_lock") => p.scoped_try_lock(key, |d| match d {
			Ok(d) => {
				body(&mut SData::P(false, d));
				false
			}
			Err(e) => {
				body(&mut SData::P(true, e.into_inner()));
				true
			}
		}),
		(CollObj::Pois(p), "scoped_read") => Ok(p.scoped_read(key, |d| match d {
			Ok(d) => {
				body(&mut SData::PR(false, d));
				false
			}
			Err(e) => {
				body(&mut SData::PR(true, e.into_inner()));
				true
			}
		})),
		(CollObj::Pois(p), "scoped_try_read") => p.scoped_try_read(key, |d| match d {
			Ok(d) => {
				body(&mut SData::PR(false, d));
				false
			}
			Err(e) => {
				body(&mut SData::PR(true, e.into_inner()));
				true
			}
		}),
		(_, a) => panic!("harness: api {a} not applicable"),
	}
}

// ---------------------------------------------------------------- interpreter

fn pos_json(pos: &[usize]) -> String {
	let v: Vec<String> = pos.iter().map(|x| x.to_string()).collect();
	format!("[{}]", v.join(","))
}

fn run_body(b: &Built, t: usize, ci: usize, body: &[BodyOp], acc: &mut dyn Acc) {
	for op in body {
		match op.o.as_str() {
			"op" => do_op(b, t, &op.name, op.c),
			"acc" => {
				sched::yield_point();
				if sched::aborting() {
					continue;
				}
				let write = op.m == "w";
				match acc.touch(&op.pos, write) {
					Some((lid, seen, wrote)) => sched::log(format!(
						"{{\"e\":\"acc\",\"t\":{},\"ci\":{},\"pos\":{},\"m\":\"{}\",\"lid\":{},\"seen\":{},\"wrote\":{}}}",
						t, ci, pos_json(&op.pos), op.m, lid, seen, wrote
					)),
					None => sched::log(format!(
						"{{\"e\":\"acc\",\"t\":{},\"ci\":{},\"pos\":{},\"m\":\"{}\",\"lid\":0,\"seen\":0,\"wrote\":0}}",
						t, ci, pos_json(&op.pos), op.m
					)),
				}
			}
			"panic" => {
				sched::yield_point();
				if sched::aborting() {
					continue;
				}
				sched::log(format!("{{\"e\":\"panic\",\"t\":{},\"ci\":{}}}", t, ci));
				std::panic::panic_any(UserPanic);
			}
			"probe" => {
				// ThreadKey::get() while the running call has the thread's key
				let k = ThreadKey::get();
				sched::log(format!("{{\"e\":\"probe\",\"t\":{},\"some\":{}}}", t, k.is_some()));
				drop(k);
			}
			o => panic!("harness: unknown body op {o}"),
		}
	}
}

fn is_scoped(api: &str) -> bool {
	api.starts_with("scoped_")
}

fn bools_json(v: &[bool]) -> String {
	let s: Vec<&str> = v.iter().map(|&b| if b { "true" } else { "false" }).collect();
	format!("[{}]", s.join(","))
}

fn ret_errs(t: usize, ci: usize, res: &str, errs: &[bool]) {
	sched::log(format!(
		"{{\"e\":\"ret\",\"t\":{},\"ci\":{},\"res\":\"{}\",\"errs\":{}}}",
		t,
		ci,
		res,
		bools_json(errs)
	));
}

fn ret(t: usize, ci: usize, res: &str) {
	ret_errs(t, ci, res, &[])
}

fn debug_obj(obj: CollObj) -> String {
	match obj {
		CollObj::Invalid => String::new(),
		CollObj::Single(x) => format!("{:?}", x),
		CollObj::Owned(x) => format!("{:?}", x),
		CollObj::Boxed(x) => format!("{:?}", x),
		CollObj::Ref(x) => format!("{:?}", x),
		CollObj::Retry(x) => format!("{:?}", x),
		CollObj::Pois(x) => format!("{:?}", x),
	}
}

/// a non-acquiring operation on collection c
fn do_op(b: &Built, t: usize, name: &str, c: usize) {
	if sched::aborting() {
		return;
	}
	sched::log(format!(
		"{{\"e\":\"op\",\"t\":{},\"name\":\"{}\",\"c\":{},\"ph\":\"begin\",\"res\":\"\"}}",
		t, name, c
	));
	let obj = b.colls[c - 1];
	let mut res = String::new();
	match (name, obj) {
		("debug", o) => {
			let s = debug_obj(o);
			std::hint::black_box(&s);
		}
		("access", o) => {
			// child(), as_ref(), iter(): accessors that must not touch any lock
			let n = match o {
				CollObj::Boxed(c) => {
					let a: &[Item] = c.as_ref();
					c.child().len() + a.len() + c.iter().count()
				}
				CollObj::Ref(c) => {
					let a: &[Item] = c.as_ref();
					c.child().len() + a.len() + c.iter().count()
				}
				CollObj::Retry(c) => {
					let a: &[Item] = c.as_ref();
					c.child().len() + a.len() + c.iter().count()
				}
				_ => 0,
			};
			std::hint::black_box(n);
		}
		("dupcheck", o) => {
			// the checked constructors (sort + duplicate check) over references to this very collection
			let item = match o {
				CollObj::Single(l) => Some(Item::L(l)),
				CollObj::Owned(x) => Some(Item::O(x)),
				CollObj::Boxed(x) => Some(Item::B(x)),
				CollObj::Ref(x) => Some(Item::F(x)),
				CollObj::Retry(x) => Some(Item::T(x)),
				CollObj::Pois(x) => Some(Item::P(x)),
				CollObj::Invalid => None,
			};
			if let Some(it) = item {
				let two = |it: &Item| -> Item {
					match it {
						Item::L(x) => Item::L(x),
						Item::O(x) => Item::O(x),
						Item::B(x) => Item::B(x),
						Item::F(x) => Item::F(x),
						Item::T(x) => Item::T(x),
						Item::P(x) => Item::P(x),
					}
				};
				let b = Boxed::try_new(vec![two(&it)]).is_some();
				let d = Boxed::try_new(vec![two(&it), two(&it)]).is_some();
				let v = vec![two(&it)];
				let r = RefC::try_new(unsafe { &*(&v as *const Vec<Item>) }).is_some();
				let t = Retry::try_new(vec![two(&it), two(&it)]).is_some();
				res = format!("{}{}{}{}", b as u8, d as u8, r as u8, t as u8);
			}
		}
		("is_poisoned", CollObj::Pois(p)) => res = p.is_poisoned().to_string(),
		("clear_poison", CollObj::Pois(p)) => p.clear_poison(),
		(n, _) => panic!("harness: operation {n} not applicable"),
	}
	sched::log(format!(
		"{{\"e\":\"op\",\"t\":{},\"name\":\"{}\",\"c\":{},\"ph\":\"end\",\"res\":\"{}\"}}",
		t, name, c, res
	));
}

/// One `call` program item. Returns false if the thread has to stop.
fn exec_call(b: &Built, t: usize, ci: usize, ca: &ProgItem, key: &mut Option<ThreadKey>) -> bool {
	if key.is_none() {
		let k = ThreadKey::get();
		sched::log(format!(
			"{{\"e\":\"get\",\"t\":{},\"some\":{}}}",
			t,
			k.is_some()
		));
		match k {
			Some(k) => *key = Some(k),
			None => return false,
		}
	}
	sched::log(format!(
		"{{\"e\":\"call\",\"t\":{},\"ci\":{},\"api\":\"{}\",\"c\":{},\"key\":\"{}\",\"rel\":\"{}\"}}",
		t, ci, ca.api, ca.c, ca.key, ca.rel
	));
	let obj = b.colls[ca.c - 1];
	if matches!(obj, CollObj::Invalid) {
		// the checked constructor refused this collection: nothing to call
		sched::log(format!("{{\"e\":\"skip\",\"t\":{},\"ci\":{}}}", t, ci));
		return true;
	}
	let api = ca.api.as_str();
	let r = catch_unwind(AssertUnwindSafe(|| {
		if is_scoped(api) {
			let body = |acc: &mut dyn Acc| {
				let mut errs = Vec::new();
				acc.poison_list(&mut errs);
				sched::log(format!(
					"{{\"e\":\"enter\",\"t\":{},\"ci\":{},\"errs\":{}}}",
					t,
					ci,
					bools_json(&errs)
				));
				run_body(b, t, ci, &ca.body, acc);
				sched::log(format!("{{\"e\":\"exit\",\"t\":{},\"ci\":{}}}", t, ci));
			};
			if ca.key == "lent" {
				let k: &mut ThreadKey = key.as_mut().unwrap();
				match scoped(obj, api, k, &body) {
					Ok(p) => ret(t, ci, if p { "poisoned" } else { "ok" }),
					Err(_k) => ret(t, ci, "wouldblock"),
				}
			} else {
				let k: ThreadKey = key.take().unwrap();
				match scoped(obj, api, k, &body) {
					Ok(p) => ret(t, ci, if p { "poisoned" } else { "ok" }),
					Err(k) => {
						*key = Some(k);
						ret(t, ci, "wouldblock")
					}
				}
			}
		} else {
			let k: ThreadKey = key.take().unwrap();
			match acquire(obj, api, k) {
				Acquired::WouldBlock(k) => {
					*key = Some(k);
					ret(t, ci, "wouldblock");
				}
				Acquired::Got(mut held, poisoned) => {
					let mut errs = Vec::new();
					if matches!(held, Held::PW(_) | Held::PR(_)) {
						errs.push(poisoned);
					}
					held.poison_list(&mut errs);
					ret_errs(t, ci, if poisoned { "poisoned" } else { "ok" }, &errs);
					run_body(b, t, ci, &ca.body, &mut held);
					match ca.rel.as_str() {
						"drop" => drop(held),
						"unlock" => *key = Some(held.unlock()),
						"forget" => std::mem::forget(held),
						r => panic!("harness: unknown release style {r}"),
					}
				}
			}
		}
	}));
	if let Err(e) = r {
		if e.is::<UserPanic>() {
			ret(t, ci, "panicked");
		} else if e.is::<sched::FaultPanic>() {
			ret(t, ci, "rawpanicked");
		} else {
			let msg = e
				.downcast_ref::<&str>()
				.map(|s| s.to_string())
				.or_else(|| e.downcast_ref::<String>().cloned())
				.unwrap_or_default();
			if msg.starts_with("harness:") {
				eprintln!("HARNESS-ERROR {msg}");
				std::process::exit(2);
			}
			// a panic raised by the library itself (e.g. a killed lock)
			ret(t, ci, "libpanic");
		}
	}
	sched::log(format!(
		"{{\"e\":\"fin\",\"t\":{},\"ci\":{},\"keyback\":{}}}",
		t,
		ci,
		key.is_some()
	));
	true
}

pub fn thread_main(b: &Built, sc: &Scen, t: usize) {
	sched::thread_begin(t);
	let mut key: Option<ThreadKey> = None;
	for (i, item) in sc.progs[t - 1].iter().enumerate() {
		let go = match item.k.as_str() {
			"call" => exec_call(b, t, i + 1, item, &mut key),
			"op" => {
				do_op(b, t, &item.name, item.c);
				true
			}
			"probe" => {
				let k = ThreadKey::get();
				sched::log(format!("{{\"e\":\"probe\",\"t\":{},\"some\":{}}}", t, k.is_some()));
				drop(k);
				true
			}
			"getkey" => {
				if key.is_none() {
					key = ThreadKey::get();
					sched::log(format!("{{\"e\":\"get\",\"t\":{},\"some\":{}}}", t, key.is_some()));
				}
				true
			}
			"dropkey" => {
				if let Some(k) = key.take() {
					drop(k);
					sched::log(format!("{{\"e\":\"dropkey\",\"t\":{}}}", t));
				}
				true
			}
			"forgetkey" => {
				if let Some(k) = key.take() {
					std::mem::forget(k);
					sched::log(format!("{{\"e\":\"forgetkey\",\"t\":{}}}", t));
				}
				true
			}
			k => panic!("harness: unknown program item {k}"),
		};
		if !go {
			break;
		}
	}
	drop(key);
	sched::thread_end(t);
}

#[allow(dead_code)]
fn _assert_traits() {
	fn lockable<L: Lockable>() {}
	lockable::<Item>();
	lockable::<BoxedLockCollection<Vec<Item>>>();
	lockable::<RefLockCollection<'static, Vec<Item>>>();
	lockable::<RetryingLockCollection<Vec<Item>>>();
}
