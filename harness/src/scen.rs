//! Scenario / input formats (DESIGN.md Appendix E); the same records TLC
//! prints with ToJson and reads back with ndJsonDeserialize.

use serde::Deserialize;

#[derive(Deserialize, Clone, Debug)]
pub struct Slot {
	pub k: String,
	#[serde(default)]
	pub ms: Vec<usize>,
}

#[derive(Deserialize, Clone, Debug)]
pub struct ItemRef {
	pub s: usize,
	pub c: usize,
}

#[derive(Deserialize, Clone, Debug)]
pub struct Coll {
	pub kind: String,
	#[serde(default)]
	pub ctor: String,
	pub items: Vec<ItemRef>,
}

#[derive(Deserialize, Clone, Debug)]
pub struct BodyOp {
	pub o: String,
	#[serde(default)]
	pub pos: Vec<usize>,
	#[serde(default)]
	pub m: String,
	#[serde(default)]
	pub name: String,
	#[serde(default)]
	pub c: usize,
}

#[derive(Deserialize, Clone, Debug)]
pub struct ProgItem {
	pub k: String,
	#[serde(default)]
	pub api: String,
	#[serde(default)]
	pub c: usize,
	#[serde(default)]
	pub key: String,
	#[serde(default)]
	pub rel: String,
	#[serde(default)]
	pub body: Vec<BodyOp>,
	#[serde(default)]
	pub name: String,
}

#[derive(Deserialize, Clone, Debug)]
pub struct Faults {
	pub k: String,
	#[serde(default)]
	pub at: u64,
	#[serde(default)]
	pub l: usize,
	#[serde(default)]
	pub ops: Vec<String>,
}

#[derive(Deserialize, Clone, Debug)]
pub struct Scen {
	pub arena: Vec<Slot>,
	pub colls: Vec<Coll>,
	pub progs: Vec<Vec<ProgItem>>,
	pub policy: String,
	pub faults: Faults,
}

#[derive(Deserialize, Clone, Debug)]
pub struct InputLine {
	pub k: String,
	#[serde(default)]
	pub id: u64,
	#[serde(default)]
	pub scen: serde_json::Value,
	#[serde(default)]
	pub sched: Vec<usize>,
}
