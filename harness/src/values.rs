//! C16: values are dropped exactly once and round-trip unchanged.
//!
//! Executes the construction / destruction histories enumerated by
//! `spec/Values.tla` against real happylock collections built over
//! drop-counting payloads and records `vret` (a value handed back to the
//! user, with its declared position) and `vdrop` (a payload's Drop ran).
//! Real parking_lot locks, one thread: there is nothing to schedule here.

use std::cell::RefCell;
use std::io::{BufRead, BufWriter, Write};

use happylock::collection::{BoxedLockCollection, OwnedLockCollection, RetryingLockCollection};
use happylock::lockable::{Lockable, LockableGetMut, LockableIntoInner, OwnedLockable};
use happylock::mutex::MutexRef;
use happylock::{Mutex, Poisonable, ThreadKey};
use serde::Deserialize;

thread_local! {
	static LOG: RefCell<Vec<String>> = const { RefCell::new(Vec::new()) };
}

fn log(s: String) {
	LOG.with(|l| l.borrow_mut().push(s));
}

pub struct D {
	id: u32,
	val: i64,
}

impl Drop for D {
	fn drop(&mut self) {
		log(format!("{{\"e\":\"vdrop\",\"id\":{}}}", self.id));
	}
}

type M = Mutex<D>;
type PR = parking_lot::RawMutex;

fn vret(path: &str, pos: usize, d: &D) {
	log(format!(
		"{{\"e\":\"vret\",\"path\":\"{}\",\"pos\":{},\"id\":{},\"val\":{}}}",
		path, pos, d.id, d.val
	));
}

#[derive(Deserialize, Clone, Debug)]
pub struct VOp {
	pub o: String, // lockw | getmut | extend
	pub pos: usize,
	pub val: i64,
}

#[derive(Deserialize, Clone, Debug)]
pub struct VScen {
	pub kind: String,  // boxed | retry | owned | pois
	pub shape: String, // tuple2 | array | vec | boxslice | single
	pub n: usize,
	pub ctor: String, // new | try_new | from | from_iter | reject
	pub ops: Vec<VOp>,
	pub dtor: String, // drop | into_inner | into_child | into_iter
}

/// what the harness needs to know about a container shape
trait ShapeOps: Sized + OwnedLockable + LockableIntoInner + LockableGetMut {
	fn guard_write(g: &mut <Self as Lockable>::Guard<'_>, pos: usize, val: i64);
	fn inner_list(inner: <Self as LockableIntoInner>::Inner) -> Vec<D>;
	fn getmut_write(inner: &mut <Self as LockableGetMut>::Inner<'_>, pos: usize, val: i64);
	fn into_locks(self) -> Vec<M>;
	/// (members whose raw mutex is locked right now, members)
	fn locked_count(&self) -> (usize, usize);
}

fn is_locked(m: &M) -> bool {
	use lock_api::RawMutex as _;
	unsafe { m.raw().is_locked() }
}

fn vheld(when: &str, lc: (usize, usize)) {
	log(format!(
		"{{\"e\":\"vheld\",\"when\":\"{}\",\"locked\":{},\"total\":{}}}",
		when, lc.0, lc.1
	));
}

fn write_ref(r: &mut MutexRef<'_, D, PR>, path: &str, pos: usize, val: i64) {
	vret(path, pos, r);
	r.val = val;
}

impl ShapeOps for (M, M) {
	fn guard_write(g: &mut <Self as Lockable>::Guard<'_>, pos: usize, val: i64) {
		match pos {
			1 => write_ref(&mut g.0, "guard", 1, val),
			_ => write_ref(&mut g.1, "guard", 2, val),
		}
	}
	fn inner_list(inner: (D, D)) -> Vec<D> {
		vec![inner.0, inner.1]
	}
	fn getmut_write(inner: &mut (&mut D, &mut D), pos: usize, val: i64) {
		let d: &mut D = if pos == 1 { &mut *inner.0 } else { &mut *inner.1 };
		vret("get_mut", pos, d);
		d.val = val;
	}
	fn into_locks(self) -> Vec<M> {
		vec![self.0, self.1]
	}
	fn locked_count(&self) -> (usize, usize) {
		(is_locked(&self.0) as usize + is_locked(&self.1) as usize, 2)
	}
}

impl<const N: usize> ShapeOps for [M; N] {
	fn guard_write(g: &mut <Self as Lockable>::Guard<'_>, pos: usize, val: i64) {
		write_ref(&mut g[pos - 1], "guard", pos, val)
	}
	fn inner_list(inner: [D; N]) -> Vec<D> {
		inner.into_iter().collect()
	}
	fn getmut_write(inner: &mut [&mut D; N], pos: usize, val: i64) {
		vret("get_mut", pos, inner[pos - 1]);
		inner[pos - 1].val = val;
	}
	fn into_locks(self) -> Vec<M> {
		self.into_iter().collect()
	}
	fn locked_count(&self) -> (usize, usize) {
		(self.iter().filter(|m| is_locked(m)).count(), N)
	}
}

impl ShapeOps for Vec<M> {
	fn guard_write(g: &mut <Self as Lockable>::Guard<'_>, pos: usize, val: i64) {
		write_ref(&mut g[pos - 1], "guard", pos, val)
	}
	fn inner_list(inner: Box<[D]>) -> Vec<D> {
		inner.into_vec()
	}
	fn getmut_write(inner: &mut Box<[&mut D]>, pos: usize, val: i64) {
		vret("get_mut", pos, inner[pos - 1]);
		inner[pos - 1].val = val;
	}
	fn into_locks(self) -> Vec<M> {
		self
	}
	fn locked_count(&self) -> (usize, usize) {
		(self.iter().filter(|m| is_locked(m)).count(), self.len())
	}
}

impl ShapeOps for Box<[M]> {
	fn guard_write(g: &mut <Self as Lockable>::Guard<'_>, pos: usize, val: i64) {
		write_ref(&mut g[pos - 1], "guard", pos, val)
	}
	fn inner_list(inner: Box<[D]>) -> Vec<D> {
		inner.into_vec()
	}
	fn getmut_write(inner: &mut Box<[&mut D]>, pos: usize, val: i64) {
		vret("get_mut", pos, inner[pos - 1]);
		inner[pos - 1].val = val;
	}
	fn into_locks(self) -> Vec<M> {
		self.into_vec()
	}
	fn locked_count(&self) -> (usize, usize) {
		(self.iter().filter(|m| is_locked(m)).count(), self.len())
	}
}

fn report_values(path: &str, vals: Vec<D>) {
	for (i, d) in vals.iter().enumerate() {
		vret(path, i + 1, d);
	}
	drop(vals);
}

fn report_locks(path: &str, locks: Vec<M>) {
	let vals: Vec<D> = locks.into_iter().map(|m| m.into_inner()).collect();
	report_values(path, vals);
}

fn mk(id: usize) -> M {
	Mutex::new(D {
		id: id as u32,
		val: 10 * id as i64,
	})
}

fn key() -> ThreadKey {
	ThreadKey::get().expect("values: thread key")
}

// ---- one generic runner per collection kind ------------------------------------

fn run_boxed<S: ShapeOps + IntoIterator<Item = M> + 'static>(sc: &VScen, data: S)
where
	for<'a> &'a S: Sized,
{
	let c: BoxedLockCollection<S> = match sc.ctor.as_str() {
		"new" => BoxedLockCollection::new(data),
		"try_new" => BoxedLockCollection::try_new(data).expect("values: duplicate-free input rejected"),
		"from" => BoxedLockCollection::from(data),
		x => panic!("values: ctor {x} not applicable to boxed"),
	};
	for op in &sc.ops {
		match op.o.as_str() {
			"lockw" => {
				let mut g = c.lock(key());
				vheld("guard", c.child().locked_count());
				S::guard_write(&mut g, op.pos, op.val);
				drop(g);
				vheld("after", c.child().locked_count());
			}
			x => panic!("values: op {x} not applicable to boxed"),
		}
	}
	match sc.dtor.as_str() {
		"drop" => drop(c),
		"into_inner" => report_values("into_inner", S::inner_list(c.into_inner())),
		"into_child" => report_locks("into_child", c.into_child().into_locks()),
		"into_iter" => report_locks("into_iter", c.into_iter().collect()),
		x => panic!("values: dtor {x}"),
	}
}

fn run_boxed_tuple(sc: &VScen, data: (M, M)) {
	let c: BoxedLockCollection<(M, M)> = match sc.ctor.as_str() {
		"new" => BoxedLockCollection::new(data),
		"try_new" => BoxedLockCollection::try_new(data).expect("values: duplicate-free input rejected"),
		"from" => BoxedLockCollection::from(data),
		x => panic!("values: ctor {x} not applicable"),
	};
	for op in &sc.ops {
		if op.o == "lockw" {
			let mut g = c.lock(key());
			vheld("guard", c.child().locked_count());
			<(M, M)>::guard_write(&mut g, op.pos, op.val);
			drop(g);
			vheld("after", c.child().locked_count());
		}
	}
	match sc.dtor.as_str() {
		"drop" => drop(c),
		"into_inner" => report_values("into_inner", <(M, M)>::inner_list(c.into_inner())),
		"into_child" => report_locks("into_child", c.into_child().into_locks()),
		x => panic!("values: dtor {x} not applicable to a tuple"),
	}
}

macro_rules! owning_runner {
	($name:ident, $coll:ident, $probe:expr) => {
		fn $name<S: ShapeOps + 'static>(sc: &VScen, data: S, iter: Option<fn($coll<S>) -> Vec<M>>, ext: Option<fn(&mut $coll<S>, M)>) {
			let probe: Option<fn(&$coll<S>) -> (usize, usize)> = $probe;
			let mut c: $coll<S> = match sc.ctor.as_str() {
				"new" => $coll::new(data),
				"from" => $coll::from(data),
				x => panic!("values: ctor {x} not applicable"),
			};
			let mut next_id = sc.n + 1;
			for op in &sc.ops {
				match op.o.as_str() {
					"lockw" => {
						let mut g = c.lock(key());
						if let Some(p) = probe {
							vheld("guard", p(&c));
						}
						S::guard_write(&mut g, op.pos, op.val);
						drop(g);
						if let Some(p) = probe {
							vheld("after", p(&c));
						}
					}
					"getmut" => {
						let mut inner = c.get_mut();
						S::getmut_write(&mut inner, op.pos, op.val);
					}
					"extend" => {
						(ext.expect("values: extend not applicable"))(&mut c, mk(next_id));
						next_id += 1;
					}
					x => panic!("values: op {x}"),
				}
			}
			match sc.dtor.as_str() {
				"drop" => drop(c),
				"into_inner" => report_values("into_inner", S::inner_list(c.into_inner())),
				"into_child" => report_locks("into_child", c.into_child().into_locks()),
				"into_iter" => report_locks("into_iter", (iter.expect("values: into_iter not applicable"))(c)),
				x => panic!("values: dtor {x}"),
			}
		}
	};
}
owning_runner!(run_retry, RetryingLockCollection, Some(|c: &RetryingLockCollection<S>| c.child().locked_count()));
owning_runner!(run_owned, OwnedLockCollection, None);

fn run_reject(sc: &VScen) {
	// a duplicate pair of references next to an owning member: the constructor must refuse the
	// input and drop it (the owning member's payload exactly once)
	let shared: &'static M = Box::leak(Box::new(mk(1)));
	let owned = mk(2);
	match sc.kind.as_str() {
		"boxed" => {
			let r = BoxedLockCollection::try_new((vec![shared, shared], owned));
			log(format!("{{\"e\":\"vctor\",\"some\":{}}}", r.is_some()));
			drop(r);
		}
		"retry" => {
			let r = RetryingLockCollection::try_new((vec![shared, shared], owned));
			log(format!("{{\"e\":\"vctor\",\"some\":{}}}", r.is_some()));
			drop(r);
		}
		x => panic!("values: reject path of {x}"),
	}
	unsafe { drop(Box::from_raw(shared as *const M as *mut M)) };
}

fn run_zst(sc: &VScen) {
	// an EMPTY owned collection is a zero-sized value: next to a lock it may have that lock's
	// address; the input is duplicate-free and must be accepted (C07)
	match sc.kind.as_str() {
		"boxed" => {
			let r = BoxedLockCollection::try_new((OwnedLockCollection::new(arr::<0>()), mk(1)));
			log(format!("{{\"e\":\"vctor\",\"some\":{}}}", r.is_some()));
			drop(r);
		}
		"retry" => {
			let r = RetryingLockCollection::try_new((OwnedLockCollection::new(arr::<0>()), mk(1)));
			log(format!("{{\"e\":\"vctor\",\"some\":{}}}", r.is_some()));
			drop(r);
		}
		"ref" => {
			let data = (OwnedLockCollection::new(arr::<0>()), mk(1));
			let r = happylock::collection::RefLockCollection::try_new(&data);
			log(format!("{{\"e\":\"vctor\",\"some\":{}}}", r.is_some()));
			drop(r);
		}
		x => panic!("values: zst path of {x}"),
	}
}

fn run_pois(sc: &VScen) {
	let p = Poisonable::new(mk(1));
	for op in &sc.ops {
		if op.o == "lockw" {
			let mut g = p.lock(key()).unwrap_or_else(|e| e.into_inner());
			vret("guard", 1, &g);
			g.val = op.val;
		}
	}
	match sc.dtor.as_str() {
		"drop" => drop(p),
		"into_inner" => report_values("into_inner", vec![p.into_inner().unwrap_or_else(|e| e.into_inner())]),
		"into_child" => report_locks("into_child", vec![p.into_child().unwrap_or_else(|e| e.into_inner())]),
		x => panic!("values: dtor {x}"),
	}
}

fn arr<const N: usize>() -> [M; N] {
	std::array::from_fn(|i| mk(i + 1))
}

fn run_scen(sc: &VScen) {
	if sc.ctor == "reject" {
		return run_reject(sc);
	}
	if sc.ctor == "zst" {
		return run_zst(sc);
	}
	if sc.kind == "pois" {
		return run_pois(sc);
	}
	let vecd = || -> Vec<M> { (1..=sc.n).map(mk).collect() };
	macro_rules! by_shape {
		($run_generic:expr, $tuple:expr) => {
			match (sc.shape.as_str(), sc.n) {
				("tuple2", _) => $tuple,
				("array", 0) => $run_generic(arr::<0>()),
				("array", 1) => $run_generic(arr::<1>()),
				("array", 2) => $run_generic(arr::<2>()),
				("array", 3) => $run_generic(arr::<3>()),
				("array", 4) => $run_generic(arr::<4>()),
				_ => panic!("values: shape"),
			}
		};
	}
	match sc.kind.as_str() {
		"boxed" => match sc.shape.as_str() {
			"vec" if sc.ctor == "from_iter" => {
				let c: BoxedLockCollection<Vec<M>> = vecd().into_iter().collect();
				run_boxed_built(sc, c)
			}
			"boxslice" if sc.ctor == "from_iter" => {
				let c: BoxedLockCollection<Box<[M]>> = vecd().into_iter().collect();
				run_boxed_built(sc, c)
			}
			"vec" => run_boxed(sc, vecd()),
			"boxslice" => run_boxed(sc, vecd().into_boxed_slice()),
			"tuple2" => run_boxed_tuple(sc, (mk(1), mk(2))),
			_ => by_shape!(|d| run_boxed(sc, d), run_boxed_tuple(sc, (mk(1), mk(2)))),
		},
		"retry" => match sc.shape.as_str() {
			"vec" => run_retry(
				sc,
				vecd(),
				Some(|c: RetryingLockCollection<Vec<M>>| c.into_iter().collect()),
				Some(|c: &mut RetryingLockCollection<Vec<M>>, m: M| c.extend([m])),
			),
			"boxslice" => run_retry(
				sc,
				vecd().into_boxed_slice(),
				Some(|c: RetryingLockCollection<Box<[M]>>| c.into_iter().collect()),
				None,
			),
			_ => by_shape!(
				|d| run_retry_arr(sc, d),
				run_retry(sc, (mk(1), mk(2)), None, None)
			),
		},
		"owned" => match sc.shape.as_str() {
			"vec" => run_owned(
				sc,
				vecd(),
				Some(|c: OwnedLockCollection<Vec<M>>| c.into_iter().collect()),
				Some(|c: &mut OwnedLockCollection<Vec<M>>, m: M| c.extend([m])),
			),
			"boxslice" => run_owned(
				sc,
				vecd().into_boxed_slice(),
				Some(|c: OwnedLockCollection<Box<[M]>>| c.into_iter().collect()),
				None,
			),
			_ => by_shape!(
				|d| run_owned_arr(sc, d),
				run_owned(sc, (mk(1), mk(2)), None, None)
			),
		},
		k => panic!("values: kind {k}"),
	}
}

fn run_retry_arr<const N: usize>(sc: &VScen, d: [M; N]) {
	run_retry(
		sc,
		d,
		Some(|c: RetryingLockCollection<[M; N]>| c.into_iter().collect()),
		None,
	)
}
fn run_owned_arr<const N: usize>(sc: &VScen, d: [M; N]) {
	run_owned(
		sc,
		d,
		Some(|c: OwnedLockCollection<[M; N]>| c.into_iter().collect()),
		None,
	)
}

/// boxed collection already built by `collect()`
fn run_boxed_built<S: ShapeOps + IntoIterator<Item = M> + 'static>(sc: &VScen, c: BoxedLockCollection<S>) {
	for op in &sc.ops {
		if op.o == "lockw" {
			let mut g = c.lock(key());
			vheld("guard", c.child().locked_count());
			S::guard_write(&mut g, op.pos, op.val);
			drop(g);
			vheld("after", c.child().locked_count());
		}
	}
	match sc.dtor.as_str() {
		"drop" => drop(c),
		"into_inner" => report_values("into_inner", S::inner_list(c.into_inner())),
		"into_child" => report_locks("into_child", c.into_child().into_locks()),
		"into_iter" => report_locks("into_iter", c.into_iter().collect()),
		x => panic!("values: dtor {x}"),
	}
}

#[derive(Deserialize)]
struct VLine {
	scen: serde_json::Value,
}

pub fn cmd_values(inp: &str, out: &str) -> std::io::Result<()> {
	let f = std::io::BufReader::new(std::fs::File::open(inp)?);
	let mut o = BufWriter::new(std::fs::File::create(out)?);
	let mut n = 0u64;
	let mut events = 0u64;
	for line in f.lines() {
		let line = line?;
		if line.trim().is_empty() {
			continue;
		}
		let l: VLine = serde_json::from_str(&line).expect("bad values input");
		let sc: VScen = serde_json::from_value(l.scen.clone()).expect("bad values scenario");
		LOG.with(|l| l.borrow_mut().clear());
		let r = std::panic::catch_unwind(std::panic::AssertUnwindSafe(|| run_scen(&sc)));
		writeln!(o, "{{\"e\":\"vhdr\",\"scen\":{}}}", l.scen)?;
		let lines: Vec<String> = LOG.with(|l| l.borrow_mut().drain(..).collect());
		events += lines.len() as u64;
		for x in lines {
			writeln!(o, "{}", x)?;
		}
		if r.is_err() {
			writeln!(o, "{{\"e\":\"vpanic\"}}")?;
		}
		writeln!(o, "{{\"e\":\"vend\"}}")?;
		n += 1;
	}
	o.flush()?;
	println!("{{\"runs\":{},\"events\":{}}}", n, events);
	Ok(())
}
