//! C16: values are dropped exactly once and round-trip unchanged.
//!
//! Executes the construction / destruction histories enumerated by
//! `spec/Values.tla` against real happylock collections built over
//! drop-counting payloads and records `vret` (a value handed back to the
//! user, with its declared position) and `vdrop` (a payload's Drop ran).
//! Real parking_lot locks, one thread: there is nothing to schedule here.

use std::cell::RefCell;
use std::io::{BufRead, BufWriter, Write};

use happylock::collection::{BoxedLockCollection, OwnedLockCollection, RefLockCollection, RetryingLockCollection};
use happylock::lockable::{Lockable, LockableGetMut, LockableIntoInner, OwnedLockable, RawLock, Sharable};
use happylock::mutex::MutexRef;
use happylock::rwlock::{RwLockReadRef, RwLockWriteRef};
use happylock::{Mutex, Poisonable, RwLock, ThreadKey};
use serde::Deserialize;

thread_local! {
	static LOG: RefCell<Vec<String>> = const { RefCell::new(Vec::new()) };
}

fn log(s: String) {
	LOG.with(|l| l.borrow_mut().push(s));
}

pub struct D {
	id: u32,
	val: i64,
}

impl Drop for D {
	fn drop(&mut self) {
		log(format!("{{\"e\":\"vdrop\",\"id\":{}}}", self.id));
	}
}

type M = Mutex<D>;
type PR = parking_lot::RawMutex;

fn vret(path: &str, pos: usize, d: &D) {
	log(format!(
		"{{\"e\":\"vret\",\"path\":\"{}\",\"pos\":{},\"id\":{},\"val\":{}}}",
		path, pos, d.id, d.val
	));
}

#[derive(Deserialize, Clone, Debug)]
pub struct VOp {
	pub o: String, // lockw | scopedw | getmut | childmut | itermut | extend | lockr | scopedr
	pub pos: usize,
	pub val: i64,
}

#[derive(Deserialize, Clone, Debug)]
pub struct VScen {
	pub kind: String,  // boxed | retry | owned | ref | pois
	pub shape: String, // tuple2 | array | vec | boxslice | single
	pub mem: String,   // m (Mutex members) | rw (RwLock members)
	pub n: usize,
	pub ctor: String, // new | try_new | from | from_iter | new_ref | reject | zst
	pub ops: Vec<VOp>,
	pub dtor: String, // drop | into_inner | into_child | into_iter
}

/// what the harness needs to know about a container shape
trait ShapeOps: Sized + OwnedLockable + LockableIntoInner + LockableGetMut {
	fn guard_write(g: &mut <Self as Lockable>::Guard<'_>, pos: usize, val: i64);
	fn data_write(d: &mut <Self as Lockable>::DataMut<'_>, pos: usize, val: i64);
	fn inner_list(inner: <Self as LockableIntoInner>::Inner) -> Vec<D>;
	fn getmut_write(inner: &mut <Self as LockableGetMut>::Inner<'_>, path: &str, pos: usize, val: i64);
	fn into_locks(self) -> Vec<M>;
	/// (members whose raw mutex is locked right now, members)
	fn locked_count(&self) -> (usize, usize);
}

fn is_locked(m: &M) -> bool {
	use lock_api::RawMutex as _;
	unsafe { m.raw().is_locked() }
}

fn vheld(when: &str, lc: (usize, usize)) {
	log(format!(
		"{{\"e\":\"vheld\",\"when\":\"{}\",\"locked\":{},\"total\":{}}}",
		when, lc.0, lc.1
	));
}

fn write_ref(r: &mut MutexRef<'_, D, PR>, path: &str, pos: usize, val: i64) {
	vret(path, pos, r);
	r.val = val;
}

fn write_d(d: &mut D, path: &str, pos: usize, val: i64) {
	vret(path, pos, d);
	d.val = val;
}

impl ShapeOps for (M, M) {
	fn guard_write(g: &mut <Self as Lockable>::Guard<'_>, pos: usize, val: i64) {
		match pos {
			1 => write_ref(&mut g.0, "guard", 1, val),
			_ => write_ref(&mut g.1, "guard", 2, val),
		}
	}
	fn data_write(d: &mut (&mut D, &mut D), pos: usize, val: i64) {
		match pos {
			1 => write_d(d.0, "scoped", 1, val),
			_ => write_d(d.1, "scoped", 2, val),
		}
	}
	fn inner_list(inner: (D, D)) -> Vec<D> {
		vec![inner.0, inner.1]
	}
	fn getmut_write(inner: &mut (&mut D, &mut D), path: &str, pos: usize, val: i64) {
		let d: &mut D = if pos == 1 { &mut *inner.0 } else { &mut *inner.1 };
		write_d(d, path, pos, val);
	}
	fn into_locks(self) -> Vec<M> {
		vec![self.0, self.1]
	}
	fn locked_count(&self) -> (usize, usize) {
		(is_locked(&self.0) as usize + is_locked(&self.1) as usize, 2)
	}
}

impl<const N: usize> ShapeOps for [M; N] {
	fn guard_write(g: &mut <Self as Lockable>::Guard<'_>, pos: usize, val: i64) {
		write_ref(&mut g[pos - 1], "guard", pos, val)
	}
	fn data_write(d: &mut [&mut D; N], pos: usize, val: i64) {
		write_d(d[pos - 1], "scoped", pos, val)
	}
	fn inner_list(inner: [D; N]) -> Vec<D> {
		inner.into_iter().collect()
	}
	fn getmut_write(inner: &mut [&mut D; N], path: &str, pos: usize, val: i64) {
		write_d(inner[pos - 1], path, pos, val)
	}
	fn into_locks(self) -> Vec<M> {
		self.into_iter().collect()
	}
	fn locked_count(&self) -> (usize, usize) {
		(self.iter().filter(|m| is_locked(m)).count(), N)
	}
}

impl ShapeOps for Vec<M> {
	fn guard_write(g: &mut <Self as Lockable>::Guard<'_>, pos: usize, val: i64) {
		write_ref(&mut g[pos - 1], "guard", pos, val)
	}
	fn data_write(d: &mut Box<[&mut D]>, pos: usize, val: i64) {
		write_d(d[pos - 1], "scoped", pos, val)
	}
	fn inner_list(inner: Box<[D]>) -> Vec<D> {
		inner.into_vec()
	}
	fn getmut_write(inner: &mut Box<[&mut D]>, path: &str, pos: usize, val: i64) {
		write_d(inner[pos - 1], path, pos, val)
	}
	fn into_locks(self) -> Vec<M> {
		self
	}
	fn locked_count(&self) -> (usize, usize) {
		(self.iter().filter(|m| is_locked(m)).count(), self.len())
	}
}

impl ShapeOps for Box<[M]> {
	fn guard_write(g: &mut <Self as Lockable>::Guard<'_>, pos: usize, val: i64) {
		write_ref(&mut g[pos - 1], "guard", pos, val)
	}
	fn data_write(d: &mut Box<[&mut D]>, pos: usize, val: i64) {
		write_d(d[pos - 1], "scoped", pos, val)
	}
	fn inner_list(inner: Box<[D]>) -> Vec<D> {
		inner.into_vec()
	}
	fn getmut_write(inner: &mut Box<[&mut D]>, path: &str, pos: usize, val: i64) {
		write_d(inner[pos - 1], path, pos, val)
	}
	fn into_locks(self) -> Vec<M> {
		self.into_vec()
	}
	fn locked_count(&self) -> (usize, usize) {
		(self.iter().filter(|m| is_locked(m)).count(), self.len())
	}
}

// ---- RwLock members: write and read paths of every shape -------------------------

type RW = RwLock<D>;
type PRW = parking_lot::RawRwLock;

/// 0 free, 1 shared, 2 exclusive — probed through the RawLock interface (one thread, nothing waits)
fn rw_state(m: &RW) -> u8 {
	unsafe {
		if m.raw_try_write() {
			m.raw_unlock_write();
			0
		} else if m.raw_try_read() {
			m.raw_unlock_read();
			1
		} else {
			2
		}
	}
}

fn mkrw(id: usize) -> RW {
	RwLock::new(D {
		id: id as u32,
		val: 10 * id as i64,
	})
}

trait RwShape: Sized + OwnedLockable + Sharable + LockableIntoInner {
	fn guard_write(g: &mut <Self as Lockable>::Guard<'_>, pos: usize, val: i64);
	fn data_write(d: &mut <Self as Lockable>::DataMut<'_>, pos: usize, val: i64);
	fn read_visit(g: &<Self as Sharable>::ReadGuard<'_>, pos: usize);
	fn dataref_visit(d: &<Self as Sharable>::DataRef<'_>, pos: usize);
	fn inner_list(inner: <Self as LockableIntoInner>::Inner) -> Vec<D>;
	fn states(&self) -> Vec<u8>;
}

fn wref(r: &mut RwLockWriteRef<'_, D, PRW>, pos: usize, val: i64) {
	vret("guard", pos, r);
	r.val = val;
}
fn rref(r: &RwLockReadRef<'_, D, PRW>, pos: usize) {
	vret("read", pos, r);
}

impl RwShape for (RW, RW) {
	fn guard_write(g: &mut <Self as Lockable>::Guard<'_>, pos: usize, val: i64) {
		match pos {
			1 => wref(&mut g.0, 1, val),
			_ => wref(&mut g.1, 2, val),
		}
	}
	fn data_write(d: &mut (&mut D, &mut D), pos: usize, val: i64) {
		match pos {
			1 => write_d(d.0, "scoped", 1, val),
			_ => write_d(d.1, "scoped", 2, val),
		}
	}
	fn read_visit(g: &<Self as Sharable>::ReadGuard<'_>, pos: usize) {
		match pos {
			1 => rref(&g.0, 1),
			_ => rref(&g.1, 2),
		}
	}
	fn dataref_visit(d: &(&D, &D), pos: usize) {
		match pos {
			1 => vret("scoped_read", 1, d.0),
			_ => vret("scoped_read", 2, d.1),
		}
	}
	fn inner_list(inner: (D, D)) -> Vec<D> {
		vec![inner.0, inner.1]
	}
	fn states(&self) -> Vec<u8> {
		vec![rw_state(&self.0), rw_state(&self.1)]
	}
}

impl<const N: usize> RwShape for [RW; N] {
	fn guard_write(g: &mut <Self as Lockable>::Guard<'_>, pos: usize, val: i64) {
		wref(&mut g[pos - 1], pos, val)
	}
	fn data_write(d: &mut [&mut D; N], pos: usize, val: i64) {
		write_d(d[pos - 1], "scoped", pos, val)
	}
	fn read_visit(g: &<Self as Sharable>::ReadGuard<'_>, pos: usize) {
		rref(&g[pos - 1], pos)
	}
	fn dataref_visit(d: &[&D; N], pos: usize) {
		vret("scoped_read", pos, d[pos - 1])
	}
	fn inner_list(inner: [D; N]) -> Vec<D> {
		inner.into_iter().collect()
	}
	fn states(&self) -> Vec<u8> {
		self.iter().map(rw_state).collect()
	}
}

macro_rules! rw_slice_shape {
	($t:ty) => {
		impl RwShape for $t {
			fn guard_write(g: &mut <Self as Lockable>::Guard<'_>, pos: usize, val: i64) {
				wref(&mut g[pos - 1], pos, val)
			}
			fn data_write(d: &mut Box<[&mut D]>, pos: usize, val: i64) {
				write_d(d[pos - 1], "scoped", pos, val)
			}
			fn read_visit(g: &<Self as Sharable>::ReadGuard<'_>, pos: usize) {
				rref(&g[pos - 1], pos)
			}
			fn dataref_visit(d: &Box<[&D]>, pos: usize) {
				vret("scoped_read", pos, d[pos - 1])
			}
			fn inner_list(inner: Box<[D]>) -> Vec<D> {
				inner.into_vec()
			}
			fn states(&self) -> Vec<u8> {
				self.iter().map(rw_state).collect()
			}
		}
	};
}
rw_slice_shape!(Vec<RW>);
rw_slice_shape!(Box<[RW]>);

fn vheld_rw(when: &str, st: Vec<u8>) {
	let want = match when {
		"guard" => 2,
		"rguard" => 1,
		_ => 0,
	};
	let n = if when == "after" {
		st.iter().filter(|&&x| x != 0).count()
	} else {
		st.iter().filter(|&&x| x == want).count()
	};
	vheld(when, (n, st.len()));
}

/// the four operations of an RwLock-membered collection; `$c` is any collection type with the
/// lock / read / scoped_lock / scoped_read API and `$data` an expression of type &S
macro_rules! rw_ops {
	($sc:expr, $c:expr, $data:expr, $S:ty) => {
		for op in &$sc.ops {
			match op.o.as_str() {
				"lockw" => {
					let mut g = $c.lock(key());
					vheld_rw("guard", $data.states());
					<$S>::guard_write(&mut g, op.pos, op.val);
					drop(g);
					vheld_rw("after", $data.states());
				}
				"lockr" => {
					let g = $c.read(key());
					vheld_rw("rguard", $data.states());
					<$S>::read_visit(&g, op.pos);
					drop(g);
					vheld_rw("after", $data.states());
				}
				"scopedw" => {
					let mut k = key();
					$c.scoped_lock(&mut k, |mut d| {
						vheld_rw("guard", $data.states());
						<$S>::data_write(&mut d, op.pos, op.val)
					});
					vheld_rw("after", $data.states());
				}
				"scopedr" => {
					let mut k = key();
					$c.scoped_read(&mut k, |d| {
						vheld_rw("rguard", $data.states());
						<$S>::dataref_visit(&d, op.pos)
					});
					vheld_rw("after", $data.states());
				}
				x => panic!("values: op {x} not applicable to RwLock members"),
			}
		}
	};
}

fn rw_finish<S: RwShape>(sc: &VScen, data: S) {
	match sc.dtor.as_str() {
		"drop" => drop(data),
		"into_inner" => report_values("into_inner", S::inner_list(data.into_inner())),
		x => panic!("values: dtor {x} not applicable to RwLock members"),
	}
}

fn run_rw<S: RwShape + 'static>(sc: &VScen, data: S) {
	// the collection borrows or owns `data`; the final destructor always acts on the container itself
	match (sc.kind.as_str(), sc.ctor.as_str()) {
		("boxed", "new_ref") => {
			let c = BoxedLockCollection::new_ref(&data);
			rw_ops!(sc, c, data, S);
			drop(c);
			rw_finish(sc, data)
		}
		("boxed", ct) => {
			let c = match ct {
				"new" => BoxedLockCollection::new(data),
				"try_new" => BoxedLockCollection::try_new(data).expect("values: duplicate-free input rejected"),
				"from" => BoxedLockCollection::from(data),
				x => panic!("values: ctor {x} not applicable"),
			};
			run_rw_boxed_built(sc, c)
		}
		("retry", "new_ref") => {
			let c = RetryingLockCollection::new_ref(&data);
			rw_ops!(sc, c, data, S);
			drop(c);
			rw_finish(sc, data)
		}
		("retry", ct) => {
			let c = match ct {
				"new" => RetryingLockCollection::new(data),
				"from" => RetryingLockCollection::from(data),
				x => panic!("values: ctor {x} not applicable"),
			};
			rw_ops!(sc, c, c.child(), S);
			rw_finish(sc, c.into_child())
		}
		("owned", ct) => {
			let c = match ct {
				"new" => OwnedLockCollection::new(data),
				"from" => OwnedLockCollection::from(data),
				x => panic!("values: ctor {x} not applicable"),
			};
			// an owned collection gives no shared access to its child: no hold probe
			for op in &sc.ops {
				match op.o.as_str() {
					"lockw" => {
						let mut g = c.lock(key());
						S::guard_write(&mut g, op.pos, op.val);
					}
					"lockr" => {
						let g = c.read(key());
						S::read_visit(&g, op.pos);
					}
					"scopedw" => {
						let mut k = key();
						c.scoped_lock(&mut k, |mut d| S::data_write(&mut d, op.pos, op.val));
					}
					"scopedr" => {
						let mut k = key();
						c.scoped_read(&mut k, |d| S::dataref_visit(&d, op.pos));
					}
					x => panic!("values: op {x}"),
				}
			}
			rw_finish(sc, c.into_child())
		}
		("ref", ct) => {
			let c = match ct {
				"new" => RefLockCollection::new(&data),
				"try_new" => RefLockCollection::try_new(&data).expect("values: duplicate-free input rejected"),
				x => panic!("values: ctor {x} not applicable"),
			};
			rw_ops!(sc, c, data, S);
			drop(c);
			rw_finish(sc, data)
		}
		(k, _) => panic!("values: kind {k}"),
	}
}

fn run_rw_boxed_built<S: RwShape + 'static>(sc: &VScen, c: BoxedLockCollection<S>) {
	rw_ops!(sc, c, c.child(), S);
	rw_finish(sc, c.into_child())
}

fn arr_rw<const N: usize>() -> [RW; N] {
	std::array::from_fn(|i| mkrw(i + 1))
}

fn run_scen_rw(sc: &VScen) {
	let vecd = || -> Vec<RW> { (1..=sc.n).map(mkrw).collect() };
	match (sc.shape.as_str(), sc.n) {
		("tuple2", _) => run_rw(sc, (mkrw(1), mkrw(2))),
		("vec", _) if sc.ctor == "from_iter" => {
			let c: BoxedLockCollection<Vec<RW>> = vecd().into_iter().collect();
			run_rw_boxed_built(sc, c)
		}
		("boxslice", _) if sc.ctor == "from_iter" => {
			let c: BoxedLockCollection<Box<[RW]>> = vecd().into_iter().collect();
			run_rw_boxed_built(sc, c)
		}
		("vec", _) => run_rw(sc, vecd()),
		("boxslice", _) => run_rw(sc, vecd().into_boxed_slice()),
		("array", 0) => run_rw(sc, arr_rw::<0>()),
		("array", 1) => run_rw(sc, arr_rw::<1>()),
		("array", 2) => run_rw(sc, arr_rw::<2>()),
		("array", 3) => run_rw(sc, arr_rw::<3>()),
		("array", 4) => run_rw(sc, arr_rw::<4>()),
		_ => panic!("values: shape"),
	}
}

fn report_values(path: &str, vals: Vec<D>) {
	for (i, d) in vals.iter().enumerate() {
		vret(path, i + 1, d);
	}
	drop(vals);
}

fn report_locks(path: &str, locks: Vec<M>) {
	let vals: Vec<D> = locks.into_iter().map(|m| m.into_inner()).collect();
	report_values(path, vals);
}

fn mk(id: usize) -> M {
	Mutex::new(D {
		id: id as u32,
		val: 10 * id as i64,
	})
}

fn key() -> ThreadKey {
	ThreadKey::get().expect("values: thread key")
}

// ---- one generic runner per collection kind ------------------------------------

/// guard / scoped operations available on every collection kind; `$probe` yields (locked, total)
macro_rules! lock_ops {
	($op:expr, $c:expr, $S:ty, $probe:expr) => {
		match $op.o.as_str() {
			"lockw" => {
				let mut g = $c.lock(key());
				if let Some(p) = $probe {
					vheld("guard", p());
				}
				<$S>::guard_write(&mut g, $op.pos, $op.val);
				drop(g);
				if let Some(p) = $probe {
					vheld("after", p());
				}
				true
			}
			"scopedw" => {
				let mut k = key();
				$c.scoped_lock(&mut k, |mut d| {
					if let Some(p) = $probe {
						vheld("guard", p());
					}
					<$S>::data_write(&mut d, $op.pos, $op.val)
				});
				if let Some(p) = $probe {
					vheld("after", p());
				}
				true
			}
			_ => false,
		}
	};
}

fn finish_container<S: ShapeOps>(sc: &VScen, data: S) {
	match sc.dtor.as_str() {
		"drop" => drop(data),
		"into_inner" => report_values("into_inner", S::inner_list(data.into_inner())),
		x => panic!("values: dtor {x} not applicable to a borrowed container"),
	}
}

fn run_boxed<S: ShapeOps + 'static>(sc: &VScen, data: S, iter: Option<fn(BoxedLockCollection<S>) -> Vec<M>>) {
	if sc.ctor == "new_ref" {
		let c = BoxedLockCollection::new_ref(&data);
		for op in &sc.ops {
			let probe = Some(|| data.locked_count());
			if !lock_ops!(op, c, S, probe) {
				panic!("values: op {} not applicable to boxed/new_ref", op.o);
			}
		}
		drop(c);
		return finish_container(sc, data);
	}
	let c: BoxedLockCollection<S> = match sc.ctor.as_str() {
		"new" => BoxedLockCollection::new(data),
		"try_new" => BoxedLockCollection::try_new(data).expect("values: duplicate-free input rejected"),
		"from" => BoxedLockCollection::from(data),
		x => panic!("values: ctor {x} not applicable to boxed"),
	};
	run_boxed_built(sc, c, iter)
}

/// boxed collection already built (also by `collect()`)
fn run_boxed_built<S: ShapeOps + 'static>(sc: &VScen, c: BoxedLockCollection<S>, iter: Option<fn(BoxedLockCollection<S>) -> Vec<M>>) {
	for op in &sc.ops {
		let probe = Some(|| c.child().locked_count());
		if !lock_ops!(op, c, S, probe) {
			panic!("values: op {} not applicable to boxed", op.o);
		}
	}
	match sc.dtor.as_str() {
		"drop" => drop(c),
		"into_inner" => report_values("into_inner", S::inner_list(c.into_inner())),
		"into_child" => report_locks("into_child", c.into_child().into_locks()),
		"into_iter" => report_locks("into_iter", (iter.expect("values: into_iter not applicable"))(c)),
		x => panic!("values: dtor {x}"),
	}
}

fn run_ref<S: ShapeOps + 'static>(sc: &VScen, data: S) {
	let c = match sc.ctor.as_str() {
		"new" => RefLockCollection::new(&data),
		"try_new" => RefLockCollection::try_new(&data).expect("values: duplicate-free input rejected"),
		x => panic!("values: ctor {x} not applicable to ref"),
	};
	for op in &sc.ops {
		let probe = Some(|| data.locked_count());
		if !lock_ops!(op, c, S, probe) {
			panic!("values: op {} not applicable to ref", op.o);
		}
	}
	drop(c);
	finish_container(sc, data)
}

fn run_retry_ref<S: ShapeOps + 'static>(sc: &VScen, data: S) {
	let c = RetryingLockCollection::new_ref(&data);
	for op in &sc.ops {
		let probe = Some(|| data.locked_count());
		if !lock_ops!(op, c, S, probe) {
			panic!("values: op {} not applicable to retry/new_ref", op.o);
		}
	}
	drop(c);
	finish_container(sc, data)
}

macro_rules! owning_runner {
	($name:ident, $coll:ident, $probe:expr) => {
		fn $name<S: ShapeOps + 'static>(
			sc: &VScen,
			data: S,
			iter: Option<fn($coll<S>) -> Vec<M>>,
			ext: Option<fn(&mut $coll<S>, M)>,
			itm: Option<fn(&mut $coll<S>, usize, i64)>,
		) {
			let probe_fn: Option<fn(&$coll<S>) -> (usize, usize)> = $probe;
			let mut c: $coll<S> = match sc.ctor.as_str() {
				"new" => $coll::new(data),
				"from" => $coll::from(data),
				x => panic!("values: ctor {x} not applicable"),
			};
			let mut next_id = sc.n + 1;
			for op in &sc.ops {
				let probe = probe_fn.map(|p| {
					let cr = &c;
					move || p(cr)
				});
				if lock_ops!(op, c, S, probe) {
					continue;
				}
				match op.o.as_str() {
					"getmut" => {
						let mut inner = c.get_mut();
						S::getmut_write(&mut inner, "get_mut", op.pos, op.val);
					}
					"childmut" => {
						let mut inner = LockableGetMut::get_mut(c.child_mut());
						S::getmut_write(&mut inner, "child_mut", op.pos, op.val);
					}
					"itermut" => (itm.expect("values: iter_mut not applicable"))(&mut c, op.pos, op.val),
					"extend" => {
						(ext.expect("values: extend not applicable"))(&mut c, mk(next_id));
						next_id += 1;
					}
					x => panic!("values: op {x}"),
				}
			}
			match sc.dtor.as_str() {
				"drop" => drop(c),
				"into_inner" => report_values("into_inner", S::inner_list(c.into_inner())),
				"into_child" => report_locks("into_child", c.into_child().into_locks()),
				"into_iter" => report_locks("into_iter", (iter.expect("values: into_iter not applicable"))(c)),
				x => panic!("values: dtor {x}"),
			}
		}
	};
}
owning_runner!(run_retry, RetryingLockCollection, Some(|c: &RetryingLockCollection<S>| c.child().locked_count()));
owning_runner!(run_owned, OwnedLockCollection, None);

fn itm_write(m: Option<&mut M>, pos: usize, val: i64) {
	write_d(m.expect("values: iter_mut ended early").get_mut(), "iter_mut", pos, val)
}

fn run_reject(sc: &VScen) {
	// a duplicate pair of references next to an owning member: the constructor must refuse the
	// input and drop it (the owning member's payload exactly once)
	let shared: &'static M = Box::leak(Box::new(mk(1)));
	let owned = mk(2);
	match sc.kind.as_str() {
		"boxed" => {
			let r = BoxedLockCollection::try_new((vec![shared, shared], owned));
			log(format!("{{\"e\":\"vctor\",\"some\":{}}}", r.is_some()));
			drop(r);
		}
		"retry" => {
			let r = RetryingLockCollection::try_new((vec![shared, shared], owned));
			log(format!("{{\"e\":\"vctor\",\"some\":{}}}", r.is_some()));
			drop(r);
		}
		x => panic!("values: reject path of {x}"),
	}
	unsafe { drop(Box::from_raw(shared as *const M as *mut M)) };
}

fn run_zst(sc: &VScen) {
	// an EMPTY owned collection is a zero-sized value: next to a lock it may have that lock's
	// address; the input is duplicate-free and must be accepted (C07)
	match sc.kind.as_str() {
		"boxed" => {
			let r = BoxedLockCollection::try_new((OwnedLockCollection::new(arr::<0>()), mk(1)));
			log(format!("{{\"e\":\"vctor\",\"some\":{}}}", r.is_some()));
			drop(r);
		}
		"retry" => {
			let r = RetryingLockCollection::try_new((OwnedLockCollection::new(arr::<0>()), mk(1)));
			log(format!("{{\"e\":\"vctor\",\"some\":{}}}", r.is_some()));
			drop(r);
		}
		"ref" => {
			let data = (OwnedLockCollection::new(arr::<0>()), mk(1));
			let r = happylock::collection::RefLockCollection::try_new(&data);
			log(format!("{{\"e\":\"vctor\",\"some\":{}}}", r.is_some()));
			drop(r);
		}
		x => panic!("values: zst path of {x}"),
	}
}

fn run_pois(sc: &VScen) {
	let p = Poisonable::new(mk(1));
	let mut p = p;
	for op in &sc.ops {
		match op.o.as_str() {
			"lockw" => {
				let mut g = p.lock(key()).unwrap_or_else(|e| e.into_inner());
				vret("guard", 1, &g);
				g.val = op.val;
			}
			"scopedw" => {
				let mut k = key();
				p.scoped_lock(&mut k, |r| {
					let d: &mut D = r.unwrap_or_else(|e| e.into_inner());
					write_d(d, "scoped", 1, op.val)
				});
			}
			"getmut" => write_d(p.get_mut().unwrap_or_else(|e| e.into_inner()), "get_mut", 1, op.val),
			"childmut" => write_d(p.child_mut().unwrap_or_else(|e| e.into_inner()).get_mut(), "child_mut", 1, op.val),
			x => panic!("values: op {x} not applicable to pois"),
		}
	}
	match sc.dtor.as_str() {
		"drop" => drop(p),
		"into_inner" => report_values("into_inner", vec![p.into_inner().unwrap_or_else(|e| e.into_inner())]),
		"into_child" => report_locks("into_child", vec![p.into_child().unwrap_or_else(|e| e.into_inner())]),
		x => panic!("values: dtor {x}"),
	}
}

fn arr<const N: usize>() -> [M; N] {
	std::array::from_fn(|i| mk(i + 1))
}

fn run_scen(sc: &VScen) {
	if sc.ctor == "reject" {
		return run_reject(sc);
	}
	if sc.ctor == "zst" {
		return run_zst(sc);
	}
	if sc.kind == "pois" {
		return run_pois(sc);
	}
	if sc.mem == "rw" {
		return run_scen_rw(sc);
	}
	let vecd = || -> Vec<M> { (1..=sc.n).map(mk).collect() };
	macro_rules! by_shape {
		($run_arr:ident, $tuple:expr, $vec:expr, $bx:expr) => {
			match (sc.shape.as_str(), sc.n) {
				("tuple2", _) => $tuple,
				("vec", _) => $vec,
				("boxslice", _) => $bx,
				("array", 0) => $run_arr(sc, arr::<0>()),
				("array", 1) => $run_arr(sc, arr::<1>()),
				("array", 2) => $run_arr(sc, arr::<2>()),
				("array", 3) => $run_arr(sc, arr::<3>()),
				("array", 4) => $run_arr(sc, arr::<4>()),
				_ => panic!("values: shape"),
			}
		};
	}
	match sc.kind.as_str() {
		"boxed" => match sc.shape.as_str() {
			"vec" if sc.ctor == "from_iter" => {
				let c: BoxedLockCollection<Vec<M>> = vecd().into_iter().collect();
				run_boxed_built(sc, c, Some(|c| c.into_iter().collect()))
			}
			"boxslice" if sc.ctor == "from_iter" => {
				let c: BoxedLockCollection<Box<[M]>> = vecd().into_iter().collect();
				run_boxed_built(sc, c, Some(|c| c.into_iter().collect()))
			}
			_ => by_shape!(
				run_boxed_arr,
				run_boxed(sc, (mk(1), mk(2)), None),
				run_boxed(sc, vecd(), Some(|c| c.into_iter().collect())),
				run_boxed(sc, vecd().into_boxed_slice(), Some(|c| c.into_iter().collect()))
			),
		},
		"ref" => by_shape!(
			run_ref,
			run_ref(sc, (mk(1), mk(2))),
			run_ref(sc, vecd()),
			run_ref(sc, vecd().into_boxed_slice())
		),
		"retry" if sc.ctor == "new_ref" => by_shape!(
			run_retry_ref,
			run_retry_ref(sc, (mk(1), mk(2))),
			run_retry_ref(sc, vecd()),
			run_retry_ref(sc, vecd().into_boxed_slice())
		),
		"retry" => by_shape!(
			run_retry_arr,
			run_retry(sc, (mk(1), mk(2)), None, None, None),
			run_retry(
				sc,
				vecd(),
				Some(|c: RetryingLockCollection<Vec<M>>| c.into_iter().collect()),
				Some(|c: &mut RetryingLockCollection<Vec<M>>, m: M| c.extend([m])),
				Some(|c: &mut RetryingLockCollection<Vec<M>>, pos, val| itm_write(c.iter_mut().nth(pos - 1), pos, val)),
			),
			run_retry(
				sc,
				vecd().into_boxed_slice(),
				Some(|c: RetryingLockCollection<Box<[M]>>| c.into_iter().collect()),
				None,
				Some(|c: &mut RetryingLockCollection<Box<[M]>>, pos, val| itm_write(c.iter_mut().nth(pos - 1), pos, val)),
			)
		),
		"owned" => by_shape!(
			run_owned_arr,
			run_owned(sc, (mk(1), mk(2)), None, None, None),
			run_owned(
				sc,
				vecd(),
				Some(|c: OwnedLockCollection<Vec<M>>| c.into_iter().collect()),
				Some(|c: &mut OwnedLockCollection<Vec<M>>, m: M| c.extend([m])),
				None,
			),
			run_owned(
				sc,
				vecd().into_boxed_slice(),
				Some(|c: OwnedLockCollection<Box<[M]>>| c.into_iter().collect()),
				None,
				None,
			)
		),
		k => panic!("values: kind {k}"),
	}
}

fn run_boxed_arr<const N: usize>(sc: &VScen, d: [M; N]) {
	run_boxed(sc, d, Some(|c: BoxedLockCollection<[M; N]>| c.into_iter().collect()))
}
fn run_retry_arr<const N: usize>(sc: &VScen, d: [M; N]) {
	run_retry(
		sc,
		d,
		Some(|c: RetryingLockCollection<[M; N]>| c.into_iter().collect()),
		None,
		Some(|c: &mut RetryingLockCollection<[M; N]>, pos, val| itm_write(c.iter_mut().nth(pos - 1), pos, val)),
	)
}
fn run_owned_arr<const N: usize>(sc: &VScen, d: [M; N]) {
	run_owned(
		sc,
		d,
		Some(|c: OwnedLockCollection<[M; N]>| c.into_iter().collect()),
		None,
		None,
	)
}

#[derive(Deserialize)]
struct VLine {
	scen: serde_json::Value,
}

pub fn cmd_values(inp: &str, out: &str) -> std::io::Result<()> {
	let f = std::io::BufReader::new(std::fs::File::open(inp)?);
	let mut o = BufWriter::new(std::fs::File::create(out)?);
	let mut n = 0u64;
	let mut events = 0u64;
	for line in f.lines() {
		let line = line?;
		if line.trim().is_empty() {
			continue;
		}
		let l: VLine = serde_json::from_str(&line).expect("bad values input");
		let sc: VScen = serde_json::from_value(l.scen.clone()).expect("bad values scenario");
		LOG.with(|l| l.borrow_mut().clear());
		let r = std::panic::catch_unwind(std::panic::AssertUnwindSafe(|| run_scen(&sc)));
		writeln!(o, "{{\"e\":\"vhdr\",\"scen\":{}}}", l.scen)?;
		let lines: Vec<String> = LOG.with(|l| l.borrow_mut().drain(..).collect());
		events += lines.len() as u64;
		for x in lines {
			writeln!(o, "{}", x)?;
		}
		if r.is_err() {
			writeln!(o, "{{\"e\":\"vpanic\"}}")?;
		}
		writeln!(o, "{{\"e\":\"vend\"}}")?;
		n += 1;
	}
	o.flush()?;
	println!("{{\"runs\":{},\"events\":{}}}", n, events);
	Ok(())
}
