//! hlverif — conformance harness for happylock (see /verif/DESIGN.md §4).
//!
//!   hlverif run <inputs.ndjson> <traces.ndjson>
//!
//! inputs:  {"k":"scen","id":N,"scen":{...}}  /  {"k":"run","scen":N,"sched":[...]}
//! traces:  {"e":"scen","scen":{...}} once per distinct scenario, then per run
//!          {"e":"hdr","sn":ordinal of the scenario line,...} followed by the events.

mod interp;
mod items;
mod scen;
mod sched;
mod values;

use std::collections::HashMap;
use std::io::{BufRead, BufWriter, Write};

use scen::{InputLine, Scen};

fn fault_plan(sc: &Scen) -> sched::FaultPlan {
	match sc.faults.k.as_str() {
		"oneshot" => sched::FaultPlan::OneShot { at: sc.faults.at },
		"persist" => sched::FaultPlan::Persist {
			lock: sc.faults.l,
			ops: sc.faults.ops.clone(),
		},
		_ => sched::FaultPlan::None,
	}
}

pub fn run_one(sc: &Scen, sched_prefix: &[usize], budget: u64) -> (Vec<String>, sched::RunResult) {
	let nt = sc.progs.len();
	sched::install(nt, sc.arena.len(), sc.policy == "WP", fault_plan(sc));
	let built = interp::build(sc);
	let res = std::thread::scope(|s| {
		for t in 1..=nt {
			let b = &built;
			s.spawn(move || interp::thread_main(b, sc, t));
		}
		sched::drive(sched_prefix, budget)
	});
	let w = sched::uninstall();
	built.teardown();
	(w.trace, res)
}

fn cmd_run(inp: &str, out: &str) -> std::io::Result<()> {
	let f = std::io::BufReader::new(std::fs::File::open(inp)?);
	let mut o = BufWriter::new(std::fs::File::create(out)?);
	let mut scens: HashMap<u64, (Scen, String)> = HashMap::new();
	let mut emitted: HashMap<u64, u64> = HashMap::new(); // scen id -> ordinal in this trace file
	let mut nruns = 0u64;
	let mut nevents = 0u64;
	let mut exact = 0u64;
	for line in f.lines() {
		let line = line?;
		if line.trim().is_empty() {
			continue;
		}
		let il: InputLine = serde_json::from_str(&line).expect("bad input line");
		match il.k.as_str() {
			"scen" => {
				let sc: Scen = serde_json::from_value(il.scen.clone()).expect("bad scenario");
				scens.insert(il.id, (sc, il.scen.to_string()));
			}
			"run" => {
				let id = il.scen.as_u64().expect("run.scen must be an id");
				let (sc, raw) = scens.get(&id).expect("unknown scenario");
				let sn = match emitted.get(&id) {
					Some(&n) => n,
					None => {
						let n = emitted.len() as u64 + 1;
						emitted.insert(id, n);
						writeln!(o, "{{\"e\":\"scen\",\"scen\":{}}}", raw)?;
						n
					}
				};
				let (trace, res) = run_one(sc, &il.sched, 5000);
				nruns += 1;
				nevents += trace.len() as u64;
				if res.followed == il.sched.len() {
					exact += 1;
				}
				let sched_s: Vec<String> = il.sched.iter().map(|x| x.to_string()).collect();
				writeln!(
					o,
					"{{\"e\":\"hdr\",\"sn\":{},\"id\":{},\"sched\":[{}],\"followed\":{}}}",
					sn,
					id,
					sched_s.join(","),
					res.followed
				)?;
				for l in trace {
					writeln!(o, "{}", l)?;
				}
			}
			k => panic!("unknown input kind {k}"),
		}
	}
	o.flush()?;
	println!(
		"{{\"runs\":{},\"events\":{},\"followed_exactly\":{}}}",
		nruns, nevents, exact
	);
	Ok(())
}

fn main() {
	std::panic::set_hook(Box::new(|info| {
		let msg = info
			.payload()
			.downcast_ref::<&str>()
			.map(|s| s.to_string())
			.or_else(|| info.payload().downcast_ref::<String>().cloned())
			.unwrap_or_default();
		if msg.starts_with("harness:") || msg.starts_with("values:") || msg.contains("not registered") || msg.contains("no world") {
			eprintln!("HARNESS-PANIC {msg} at {:?}", info.location());
		}
	}));
	let args: Vec<String> = std::env::args().collect();
	let r = match args.get(1).map(|s| s.as_str()) {
		Some("run") if args.len() == 4 => cmd_run(&args[2], &args[3]),
		Some("values") if args.len() == 4 => values::cmd_values(&args[2], &args[3]),
		_ => {
			eprintln!("usage: hlverif run|values <inputs.ndjson> <traces.ndjson>");
			std::process::exit(2);
		}
	};
	if let Err(e) = r {
		eprintln!("io error: {e}");
		std::process::exit(2);
	}
}
